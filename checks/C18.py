"""C18: nsync_time arithmetic is exact on normalized values."""
from lib import vf, e1

UNITS = ['platform/posix/src/time_rep.c', 'internal/time_internal.c']
FUNCS = [('h_add', False), ('h_sub', False), ('h_addsub', False), ('h_cmp', False), ('h_bounds', False), ('h_s_ns', False),
         ('h_ms', True), ('h_us', True)]


CPP = ['cpp_h_cpp_add_R1', 'cpp_h_cpp_sub_R1', 'cpp_h_cpp_cmp_R1']


def cpp_scenarios(ctx):
    from checks import scen
    S = scen.all_scenarios()
    return {n: S[n] for n in CPP}


def jobs(ctx):
    js = []
    from lib import e3
    for sc in cpp_scenarios(ctx).values():      # the C++ unit through the IR route (clang++ -> LLVM IR -> seqcc -> CBMC)
        sc.witness = True
        js += e3.make_jobs(ctx, sc)
    for f, smt in FUNCS:
        js.append(e1.make_job(ctx, f, 'C18/time_arith.c', UNITS, f, unwind=2, defines=['HFUNC=%s' % f], timeout=600, cvc5_int=smt,
                              desc='full-width symbolic operands' + (' (cvc5 --solve-bv-as-int=sum: /1000, %1000, *1000000 stall every SAT back end, measured 60 s cap)' if smt else '')))
    for f, smt in [('h_add', False), ('h_cmp', False), ('h_ms', True)]:
        js.append(e1.make_job(ctx, f + '_witness', 'C18/time_arith.c', UNITS, f, unwind=2, defines=['HFUNC=%s' % f], timeout=600, cvc5_int=smt, expect='witness'))
    return js


def confirm(ctx, job, failure):
    if job.meta.get('scenario'):
        from lib import e3
        return e3.confirm(ctx, job, failure, cpp_scenarios(ctx))
    return e1.confirm(ctx, job, failure)


def info(ctx):
    return {
        'engine': 'E1 sequential CBMC on the real translation units (C build) + IR route for the C++ unit (clang++-14 -> LLVM IR -> seqcc -> CBMC)',
        'explanation': 'platform/posix/src/time_rep.c and internal/time_internal.c compiled by goto-cc; operands are full-width symbolic: tv_sec any int64 with |sec| <= 2^61 for add/sub '
                       '("barring overflow of the seconds field"), any int64 for cmp, 0 <= tv_nsec < 1e9, every 32-bit ms/us argument. Reference = exact integer arithmetic on '
                       'sec*1e9+nsec, stated on the normalized pair (carry/borrow explicit; the pair representation is a bijection on normalized values). Asserted: results normalized, '
                       'add/sub exact, (a+b)-b == a and (a-b)+b == a, cmp = integer order, antisymmetric, transitive, consistent with sign of a-b, zero <= t <= no_deadline for t >= 0, '
                       'ms/us/s_ns yield the stated duration. Signed-overflow checks of CBMC are on inside the library code.',
        'units': UNITS + ['platform/c++11/src/time_rep_timespec.cc (C++ build: nsync_time_add / sub / cmp / s_ns, zero, no_deadline via harness/e3/time_cpp.cc)'],
        'functions': ['nsync_time_add', 'nsync_time_sub', 'nsync_time_cmp', 'nsync_time_ms', 'nsync_time_us', 'nsync_time_s_ns', 'nsync_time_zero', 'nsync_time_no_deadline'],
        'bounds': {'tv_sec': 'all int64 (cmp, bounds); |sec| <= 2^61 (add, sub)', 'tv_nsec': '0..999999999', 'ms_us': 'all 2^32 values', 'loops': 'none'},
        'stubs': [],
        'assumptions': ['operands normalized (0 <= tv_nsec < 1e9)', '|tv_sec| <= 2^61 for add/sub so that no intermediate sum overflows'],
        'outside': ['nsync_time_ms / nsync_time_us in the C++ build (same internal/time_internal.c source, compiled as C++; not re-run)', 'nsync_from_time_point_ / nsync_to_time_point_ (std::chrono conversions)',
                    'seconds beyond +-2^61 for add/sub', 'NSYNC_USE_INT_TIME / floating / debug time representations (not built by CMake)'],
    }
