"""C09: notify / free / create on related notes is safe (sequential half)."""
from checks import e3check

QUICK = ['ns_h_free_adopt_R1']
THOROUGH = ['note_freechild_notifyroot_R3']
scenarios, jobs, confirm, info = e3check.make('C09', QUICK, THOROUGH,
    'SEQUENTIAL HALF ONLY: harness/e3/note_seq.c h_free_adopt, one thread, one context - after nsync_note_free(child) the grandchild is adopted by the root (a later notify(root) reaches it), every note can then be '
    'freed, and no access touches a freed note (liveness bit per object in the memory model), for every deadline assignment of the tree. The concurrent half of the property (2..4 threads notifying, '
    'freeing and creating related notes) is NOT decided: see DESIGN.md section 6.',
    ['nsync_note_free', 'nsync_note_new', 'nsync_note_notify', 'note_notify_child'],
    ['every concurrent behaviour of notes'])
WORKERS = 4
