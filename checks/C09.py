"""C09: notify / free / create on related notes is safe."""
from checks import e3check

QUICK = ['notep_freeroot_freechild_R2', 'ns_h_free_adopt_R1', 'notep_freechild_freegrand_R2', 'notep_freeroot_freechild_R3']   # the first one carries the witness twin in the quick tier (the sequential harness has its twin in the thorough tier: it costs 8 GB / 8 min)
THOROUGH = ['notep_freechild_freegrand_R3', 'notep_freechild_notifyroot_R2', 'notep_freechild_notifyroot_R3', 'note_freechild_notifyroot_R3']
scenarios, jobs, confirm, info = e3check.make('C09', QUICK, THOROUGH,
    'SEQUENTIAL HALF: harness/e3/note_seq.c h_free_adopt, one thread, one context - after nsync_note_free(child) the grandchild is adopted by the root (a later notify(root) reaches it), every note can then be '
    'freed, and no access touches a freed note (liveness bit per object in the memory model), for every deadline assignment of the tree. '
    'CONCURRENT HALF, within a stated cut (scenarios notep_*): two threads of harness/e3/note_basic.c interleaved at every atomic operation with R contexts each - free(root) against free(child), '
    'free(child) against free(grandchild), [thorough] free(child) against notify(root) with the grandchild then reached through the root: no access to a freed note, no panic, no deadlock, both calls return. '
    'In the notep_* scenarios the CONTENDED paths of the note mutexes (nsync_mu_lock_slow_, nsync_mu_unlock_slow_ and the waiter allocation in front of them) are PRUNED: only schedules in which no thread '
    'ever finds a note mutex held by a blocking lock are explored (the failing try-lock of nsync_note_free / notify IS explored, which is where the disconnecting protocol matters). The unpruned programs '
    '(note_*) are beyond reach (one optional query in the thorough tier).',
    ['nsync_note_free', 'nsync_note_new', 'nsync_note_notify', 'notify', 'note_notify_child'],
    ['schedules in which a thread blocks on a held note mutex (pruned in the concurrent scenarios)', '3..4 threads on related notes'])
WORKERS = 4
