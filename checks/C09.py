"""C09: concurrent notify / free / create on related notes is safe."""
from checks import e3check

QUICK = ['note_freechild_notifyroot_R3', 'note_newunderroot_notifyroot_R3']
THOROUGH = ['note_freegrand_freechild_R3', 'note_freechild_notifyroot_R4', 'note_freegrand_freechild_R4', 'note_notifyroot_notifychild_R3']
scenarios, jobs, confirm, info = e3check.make('C09', QUICK, THOROUGH, 'Same harness: free(child) || notify(root), new-child(root) || notify(root), free(grand) || free(child). Freed notes are never reused and every access asserts liveness of the object (use-after-free oracle); deadlock oracle; after free(child) a later notify(root) must reach the adopted grandchild.', ['nsync_note_free', 'nsync_note_new', 'nsync_note_notify', 'note_notify_child'], ['two threads notifying the same note together with a third freeing its parent'])
