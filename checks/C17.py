"""C17: the waiter-queue list operations implement a sequence (internal/dll.c)."""
from lib import vf, e1

UNITS = ['internal/dll.c']


def jobs(ctx):
    js = []
    ne = 6 if ctx.tier == 'thorough' else 5
    # inductive step from an arbitrary valid state, one query per operation kind (the operands stay symbolic)
    for op in range(9):
        js.append(e1.make_job(ctx, 'step_NE%d_op%d' % (ne, op), 'C17/dll_step.c', UNITS, 'harness', unwind=ne + 1,
                              defines=['NE=%d' % ne, 'STEPS=1', 'OP=%d' % op], timeout=3000 if ctx.tier == 'thorough' else 900,
                              desc='operation kind %d with symbolic operands from an arbitrary pair of disjoint lists over %d elements' % (op, ne)))
    js.append(e1.make_job(ctx, 'step_NE4_anyop', 'C17/dll_step.c', UNITS, 'harness', unwind=5, defines=['NE=4', 'STEPS=1'], timeout=900,
                          desc='symbolic operation kind as well, 4 elements'))
    for op in (0, 6):
        js.append(e1.make_job(ctx, 'step_NE5_op%d_witness' % op, 'C17/dll_step.c', UNITS, 'harness', unwind=6, defines=['NE=5', 'STEPS=1', 'OP=%d' % op],
                              expect='witness', timeout=900))
    # bounded sequences from empty lists
    steps = [3, 4] if ctx.tier == 'thorough' else [2]
    for st in steps:
        js.append(e1.make_job(ctx, 'fromempty_S%d' % st, 'C17/dll_step.c', UNITS, 'harness', unwind=5, defines=['NE=4', 'STEPS=%d' % st, 'FROM_EMPTY', 'CHECK_EVERY_STEP'],
                              timeout=3000 if st > 3 else 900, optional=(st > 3), desc='%d symbolic operations from two empty lists over 4 elements, checked after every step' % st))
    js.append(e1.make_job(ctx, 'fromempty_S2_witness', 'C17/dll_step.c', UNITS, 'harness', unwind=5, defines=['NE=4', 'STEPS=2', 'FROM_EMPTY', 'CHECK_EVERY_STEP'],
                          expect='witness', timeout=900))
    return js


def confirm(ctx, job, failure):
    return e1.confirm(ctx, job, failure)


def info(ctx):
    return {
        'engine': 'E1 sequential CBMC on the real translation unit',
        'explanation': 'Bounded symbolic model checking of internal/dll.c (compiled by goto-cc with the CMake C include path). '
                       'Inductive step: pre-state = any two disjoint lists over NE elements (symbolic permutation + lengths), one symbolic operation '
                       '(remove, make_first/make_last with singleton, NULL or an element of the other list at any position, splice_after with ring or singleton, '
                       'remove+re-insert), post-state traversed forwards (first/next) and backwards (last/prev) through the real API and compared with the '
                       'abstract sequences; removed elements self-linked; containers untouched. UNSAT for all 2^k input values within NE. '
                       'Because the post-state is asserted to be again a pair of disjoint lists plus singletons, one step covers histories of any length. '
                       'Cross-check: k symbolic operations from empty lists with the abstract model maintained by the harness.',
        'units': UNITS,
        'functions': ['nsync_dll_init_', 'nsync_dll_is_empty_', 'nsync_dll_remove_', 'nsync_dll_splice_after_', 'nsync_dll_make_first_in_list_',
                      'nsync_dll_make_last_in_list_', 'nsync_dll_first_', 'nsync_dll_last_', 'nsync_dll_next_', 'nsync_dll_prev_'],
        'bounds': {'elements': 6 if ctx.tier == 'thorough' else 5, 'lists': 2, 'steps_inductive': 1, 'steps_from_empty': [3, 4] if ctx.tier == 'thorough' else [2], 'elements_from_empty': 4,
                   'unwind': 'all loops fully unwound with unwinding assertions'},
        'stubs': [],
        'assumptions': ['documented preconditions: remove(list,e) with e in list; make_first/make_last/splice with e (n) not in the target list (p\'s list)',
                        'at most NE elements and 2 lists'],
        'outside': ['more than NE elements; more than two lists at once; three-way splices of loose rings not reachable via a list head'],
    }
