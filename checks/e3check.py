"""Shared body of the E3/E2 (seqcc) check modules: each property module lists catalogue scenarios per tier."""
from lib import vf, e3
from checks import scen

COMMON_INFO = {
    'engine': 'seqcc: clang-14 IR of the real nsync units -> flat predicated resumable C over a scalar-cell memory model -> CBMC (SAT: kissat); '
              'counterexample schedules re-executed natively',
    'stubs': ['nsync_mu_semaphore_p / _v / _p_with_deadline / _init: modelled semaphore on the real count cell (P enabled iff count > 0; the timed P may time out at any point by '
              'advancing the virtual clock to its deadline)', 'nsync_spin_delay_: visible spin point (thread disabled until somebody writes shared memory)',
              'clock_gettime: arbitrary non-decreasing virtual clock', 'malloc/free: typed pools with liveness bits (never reused)', 'nsync_yield_, per-thread-waiter key functions: no-ops',
              'nsync_panic_ and the ASSERT null store: violations'],
    'assumptions': ['sequentially consistent interleavings at the granularity of atomic operations and semaphore calls; plain accesses do not yield (they are protected by the locks; C03 checks that)',
                    'per scenario: functions excluded from indirect-call resolution are asserted unreachable'],
    'trusted': ['clang-14/opt-14 (IR generation)', 'seqcc translator (validated on every run by executing the generated program natively; counterexamples must reproduce natively)', 'kissat'],
}


def make(prop, quick, thorough, explanation, functions, outside, extra_bounds=None):
    def scenarios(ctx):
        S = scen.all_scenarios()
        names = list(quick) + (list(thorough) if ctx.tier == 'thorough' else [])
        return {n: S[n] for n in names}

    def jobs(ctx):
        js = []
        for i, sc in enumerate(scenarios(ctx).values()):
            # the witness twin (non-vacuity: all threads can finish) costs as much as the query itself: in the quick tier only
            # the first scenario of a property carries one, in the thorough tier all do
            sc.witness = (i < 1) or ctx.tier == 'thorough'
            if sc.name in thorough:
                sc.optional = True        # deep queries: a timeout / out-of-memory is reported as NO-VERDICT, never as success and never as a broken check
            js += e3.make_jobs(ctx, sc)
        multi = [sc for n, sc in scenarios(ctx).items() if not n.startswith(('e2_', 'af_', 'ns_'))]   # random schedules make sense for real interleaving scenarios only
        if multi:
            js.append(e3.smoke_job(ctx, multi[0]))
        if prop in ('C02', 'C03', 'C07', 'C10'):
            js.append(e3.tv_job(ctx))      # translation validation of seqcc against the real library (deterministic API script)
        return js

    def confirm(ctx, job, failure):
        return e3.confirm(ctx, job, failure, scenarios(ctx))

    def info(ctx):
        S = scenarios(ctx)
        units = sorted(set(u for sc in S.values() for u in sc.units))
        d = dict(COMMON_INFO)
        d.update({
            'explanation': explanation,
            'units': units,
            'functions': functions,
            'bounds': dict({'scenarios': {n: dict({'threads': sc.threads, 'rounds_R': sc.R, 'unroll': sc.unroll},
                                                 **({'pruned (schedules reaching these calls are outside the bound, assumed away - not asserted)':
                                                     list(sc.cfg_extra.get('prune_fns', [])) + ['%s -> %s' % tuple(c) for c in sc.cfg_extra.get('prune_calls', [])]}
                                                    if (sc.cfg_extra.get('prune_fns') or sc.cfg_extra.get('prune_calls')) else {}))
                                         for n, sc in S.items()},
                            'meaning of R': 'each thread gets at most R contexts (round-robin rounds; a slot may be skipped): every schedule with at most R-1 pre-emptions per thread in round-robin order; '
                                            'a loop back-edge beyond the unroll factor ends the context',
                            'heap': 'one waiter record per thread (+1), objects per scenario as configured', 'recursion depth': 3}, **(extra_bounds or {})),
            'outside': outside + ['more threads / contexts than listed', 'weak-memory reorderings (C03 checks the declared orders)'],
            'samples': list(S.keys())[:6],
        })
        return d
    return scenarios, jobs, confirm, info
