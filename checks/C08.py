"""C08: a note is a one-way flag set by notify, by its deadline, or by an ancestor."""
from checks import e3check

QUICK = ['note_notifyroot_pollchild_R3', 'note_notifyroot_waitchild_R3', 'note_notifychild_siblings_R3']
THOROUGH = ['note_notifyroot_notifychild_R3', 'note_newunderroot_notifyroot_R3', 'note_notifyroot_waitchild_R4', 'note_notifyroot_pollchild_R4']
scenarios, jobs, confirm, info = e3check.make('C08', QUICK, THOROUGH, 'harness/e3/note_basic.c on parent-child(-grandchild) notes built by the real nsync_note_new: notify returns with the note notified; pollers never see notified then un-notified; after all notifies returned every descendant is notified (final check) and waiters on descendants are released (deadlock oracle); notifying a child leaves the parent un-notified.', ['nsync_note_new', 'nsync_note_notify', 'notify', 'note_notify_child', 'nsync_note_is_notified', 'nsync_note_notified_deadline_', 'nsync_note_wait', 'note_enqueue', 'note_dequeue', 'nsync_wait_n'], ['deadline-driven notification (all notes here have no deadline): the expiry arithmetic is not covered', 'depth 3 only in thorough'])
