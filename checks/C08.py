"""C08: a note is a one-way flag set by notify, by its deadline, or by an ancestor (sequential half)."""
from checks import e3check

QUICK = ['ns_h_expiry_R1', 'ns_h_new_under_notified_R1']
THOROUGH = ['ns_h_notify_child_R1', 'ns_h_notify_root_R1', 'note_notifyroot_pollchild_R3']
scenarios, jobs, confirm, info = e3check.make('C08', QUICK, THOROUGH,
    'SEQUENTIAL HALF ONLY. harness/e3/note_seq.c, one thread, one context, loops unrolled: a tree root -> child -> grand plus a sibling is built by the real nsync_note_new with solver-chosen deadlines from '
    '{none, 100 s, 200 s, 300 s} (clock frozen at 0): nsync_note_expiry of every note equals the minimum of the deadlines on its path to the root; nothing is notified at creation; a note created under a '
    'notified parent is born notified; [thorough] nsync_note_notify(child) returns with child and grandchild notified and root and sibling untouched; notify(root) reaches every descendant. '
    'The concurrent half (interleavings of notifiers, pollers and waiters; deadline-driven notification) is NOT decided: the two-thread note scenarios produce programs beyond the bounded model checker\'s reach '
    '(one of them is attempted as an optional query in the thorough tier).',
    ['nsync_note_new', 'nsync_note_expiry', 'nsync_note_is_notified', 'nsync_note_notified_deadline_', 'nsync_note_notify', 'notify', 'note_notify_child'],
    ['every concurrent behaviour of notes', 'deadlines in the past / expiring during the run (the lazy-expiry notify is asserted unreachable under the frozen clock)'])
WORKERS = 4
