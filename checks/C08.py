"""C08: a note is a one-way flag set by notify, by its deadline, or by an ancestor."""
from checks import e3check

QUICK = ['ns_h_expiry_R1', 'ns_h_new_under_notified_R1', 'notep_newunderroot_notifyroot_R2']
THOROUGH = ['ns_h_notify_child_R1', 'ns_h_notify_root_R1', 'notep_notifyroot_pollchild_R2', 'notep_newunderroot_notifyroot_R3', 'notep_notifyroot_pollchild_R3', 'note_notifyroot_pollchild_R3']
scenarios, jobs, confirm, info = e3check.make('C08', QUICK, THOROUGH,
    'SEQUENTIAL HALF: harness/e3/note_seq.c, one thread, one context, loops unrolled: a tree root -> child -> grand plus a sibling is built by the real nsync_note_new with solver-chosen deadlines from '
    '{none, 100 s, 200 s, 300 s} (clock frozen at 0): nsync_note_expiry of every note equals the minimum of the deadlines on its path to the root; nothing is notified at creation; a note created under a '
    'notified parent is born notified; [thorough] nsync_note_notify(child) returns with child and grandchild notified and root and sibling untouched; notify(root) reaches every descendant. '
    'CONCURRENT HALF, within a stated cut (scenarios notep_*): two threads of harness/e3/note_basic.c interleaved at every atomic operation with R contexts each - nsync_note_new(root) against '
    'nsync_note_notify(root): whatever the interleaving, once both have returned the new note is notified; [thorough] a poller never sees the child go from notified to un-notified while the root is '
    'being notified. In the notep_* scenarios the CONTENDED paths of the note mutexes (nsync_mu_lock_slow_, nsync_mu_unlock_slow_ and the waiter allocation in front of them) are PRUNED: only schedules in '
    'which no thread ever finds a note mutex held are explored (a try-lock that fails is explored; a blocking lock of a held mutex is not). The unpruned two-thread programs (note_*) are beyond the '
    'bounded model checker\'s reach here (one is attempted as an optional query in the thorough tier).',
    ['nsync_note_new', 'nsync_note_expiry', 'nsync_note_is_notified', 'nsync_note_notified_deadline_', 'nsync_note_notify', 'notify', 'note_notify_child'],
    ['schedules in which a thread blocks on a held note mutex (pruned in the concurrent scenarios)', 'more than two threads on related notes',
     'deadlines in the past / expiring during the run in the sequential harnesses (the lazy-expiry notify is asserted unreachable under the frozen clock)'])
WORKERS = 4
