"""C15: every deadline value is handled: expired deadlines time out, none crash."""
import os, re
from lib import vf, e1

UNIT = ['platform/linux/src/nsync_semaphore_futex.c', 'platform/posix/src/time_rep.c']
H12 = os.path.join(vf.VERIF, 'harness', 'C12')
SCE = os.path.join(vf.VERIF, 'plat', 'sc_atomic_env')


def jobs(ctx):
    js = []
    for m, k in ([(0, 0), (0, 2), (2, 2)] if ctx.tier == 'quick' else [(0, 0), (0, 3), (3, 3)]):
        js.append(e1.make_job(ctx, 'sem_timed_anydeadline_M%d_K%d' % (m, k), 'C12/sem_timed.c', UNIT, 'h_timed', unwind=m + k + 4,
                              defines=['MAXPOST=%d' % m, 'KFAULT=%d' % k, 'HFUNC=h_timed', 'C15_EXPIRED'], front_inc=[SCE], extra_src=[os.path.join(H12, 'futex_seq.c')], timeout=900,
                              desc='nsync_mu_semaphore_p_with_deadline, deadline = any timespec (all int64 seconds incl. negative, nsec < 1e9) or no_deadline'))
    js.append(e1.make_job(ctx, 'sem_timed_anydeadline_witness', 'C12/sem_timed.c', UNIT, 'h_timed', unwind=8,
                          defines=['MAXPOST=2', 'KFAULT=2', 'HFUNC=h_timed', 'C15_EXPIRED'], front_inc=[SCE], extra_src=[os.path.join(H12, 'futex_seq.c')], timeout=900, expect='witness'))
    return js


REAL_DEMO = r'''
#include "nsync.h"
#include <stdio.h>
#include <errno.h>
#include <stdlib.h>
int main (int argc, char **argv) {
	long s = strtol (argv[1], 0, 0), ns = strtol (argv[2], 0, 0);
	nsync_mu mu; nsync_cv cv; int r;
	nsync_mu_init (&mu); nsync_cv_init (&cv);
	nsync_mu_lock (&mu);
	r = nsync_cv_wait_with_deadline (&cv, &mu, nsync_time_s_ns (s, ns), NULL);
	nsync_mu_unlock (&mu);
	printf ("r=%d\n", r);
	return r == ETIMEDOUT ? 0 : 3;
}
'''


def confirm(ctx, job, failure):
    c = e1.confirm(ctx, job, failure)
    # additionally: the same deadline through the public API of the real library (real futex, real clock) when it is in the past
    inp = failure['inputs']
    s, ns = inp.get('dl_s'), inp.get('dl_ns')
    if isinstance(s, int) and isinstance(ns, int) and not inp.get('no_deadline') and s < 1000000000:
        try:
            lib = vf.build_real_lib(ctx)
            src = ctx.path('real', 'demo.c'); open(src, 'w').write(REAL_DEMO)
            exe = ctx.path('real', 'demo')
            vf.cc_native(exe, [src, lib], incs=['public'], extra=['-lpthread'])
            rc, out, err, w, _ = vf.run([exe, str(s), str(ns)], timeout=20)
            c['detail'] += ' | real library nsync_cv_wait_with_deadline(deadline={%d,%d}): %s' % (s, ns, 'hang' if rc is None else 'exit %s %s' % (rc, out.strip()))
            if rc is None or rc != 0:
                c['confirmed'] = True
                c['key'] += '|real-api-crash' if (rc is not None and rc < 0) else '|real-api'
        except Exception as ex:
            c['detail'] += ' | real-library replay failed to build: %s' % str(ex)[:200]
    return c


def info(ctx):
    return {
        'engine': 'E1 sequential CBMC on the real futex semaphore under interference; counterexamples re-run through the public API of the rebuilt real library',
        'explanation': 'Every timed entry point (cv/mu waits, note/counter waits, nsync_wait_n) converts its deadline in nsync_mu_semaphore_p_with_deadline; that function is checked for every '
                       'timespec deadline (all 2^64 seconds values including instants before the epoch, 0 <= nsec < 1e9) and no_deadline against a futex(2) model that returns EINVAL for invalid '
                       'timeouts: the library ASSERT (null store) must be unreachable (CBMC pointer checks), the loop must terminate within the bound (no hang), an expired deadline with no post '
                       'returns ETIMEDOUT, a future deadline is never answered with ETIMEDOUT while the clock is before it.',
        'units': UNIT,
        'functions': ['nsync_mu_semaphore_p_with_deadline', 'futex (static)', 'nsync_time_cmp', 'nsync_time_now'],
        'bounds': {'deadline': 'all int64 seconds x nsec 0..999999999, and no_deadline', 'environment_posts': '<=2 (thorough 3)', 'injected_early_returns': '<=2 (thorough 3)', 'unwind': 'posts+faults+4'},
        'stubs': ['syscall(SYS_futex): futex(2) contract incl. EINVAL for tv_sec < 0 or tv_nsec >= 1e9', 'clock_gettime: arbitrary non-decreasing clock'],
        'assumptions': ['normalized deadline (0 <= nsec < 1e9)'],
        'outside': ['the paths above the semaphore (cv.c, mu_wait.c, wait.c, sem_wait.c) are sequentially trivial for the deadline value: they pass it through unchanged, except nsync_wait_n which short-circuits non-positive deadlines (read, not encoded in this check)',
                    'C++ build: same sources; time_rep_timespec.cc differs only in nsync_time_now'],
    }
