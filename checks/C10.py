"""C10: the counter is atomic and its waiters are released exactly at zero."""
from checks import e3check

QUICK = ['ctr_dec2_wait_R3', 'ctr_dec2_timed_R3']
THOROUGH = ['ctr_passive_timed_dec_R3', 'ctr_dec_dec_wait_R3', 'ctr_dec_dec_timed_R3', 'ctr_dec_dec_reader_R3', 'ctr_dec_dec_late_R3', 'ctr_dec_dec_wait_R4']
scenarios, jobs, confirm, info = e3check.make('C10', QUICK, THOROUGH, 'harness/e3/counter_basic.c: counter starts at 2, two decrementers (results must be 1 and 0), a waiter (wait returns 0 only with value 0; non-zero only after its deadline), a reader (values only decrease), a late waiter (does not block after zero). Waiters present at zero must be released (deadlock oracle).', ['nsync_counter_new', 'nsync_counter_add', 'nsync_counter_value', 'nsync_counter_wait', 'counter_enqueue', 'counter_dequeue', 'counter_ready_time', 'nsync_wait_n'], ['increments; more than one waiter'])
WORKERS = 5     # each query needs 2-10 GB (cbmc + kissat): bounded parallelism keeps the machine out of swap / the OOM killer
