"""C14: a blocked locker cannot be overtaken indefinitely."""
from checks import e3check

QUICK = ['e2_h_lock_long_U5_R1', 'e2_h_lock_U2_R1', 'e2_h_rlock_U2_R1', 'e2_h_trylock_U2_R1', 'e2_h_rtrylock_U2_R1']
THOROUGH = ['e2_h_lock_long_U33_R1', 'e2_h_lock_U3_R1', 'e2_h_rlock_U3_R1']
scenarios, jobs, confirm, info = e3check.make('C14', QUICK, THOROUGH,
    'Thread-modular step check (harness/e3/e2_word.c, any number of other threads, any history; environment = arbitrary interference on the mutex word + wake-ups). Obligations decided by the solver on the real '
    'nsync_mu_lock / rlock / trylock / rtrylock / nsync_mu_lock_slow_: (1) a thread that has not yet slept on the mutex never adds a lock bit to a word in which MU_LONG_WAIT is set (for every word, every path); '
    '(2) a locker that has been woken LONG_WAIT_THRESHOLD = 30 times without acquiring sets MU_LONG_WAIT in the very CAS with which it queues itself again, and MU_LONG_WAIT is cleared only by the thread that set it, '
    'in its acquiring CAS (rely: nobody else clears it - that rely is itself obligation (2) for the others; it is checked for every release path in C01\'s step checks: unlock, runlock, unlock_slow, cv transfer); '
    '(3) a thread that has slept before re-queues itself at the front of the queue, a first-time sleeper at the back. From (1)-(3): once the victim has set MU_LONG_WAIT only threads queued behind it or woken before it can '
    'acquire ahead of it, and each of those acquires at most once before queueing behind the victim, so the number of further sleeps is bounded by the number of such threads - that last inference is a paper argument, not a solver result. '
    'The thorough tier unrolls the retry loop of nsync_mu_lock_slow_ 33 times so that the 30th wake-up is reached inside one solver query.',
    ['nsync_mu_lock', 'nsync_mu_rlock', 'nsync_mu_trylock', 'nsync_mu_rtrylock', 'nsync_mu_lock_slow_'],
    ['the bound on the number of sleeps as a function of the number of competing threads is argued, not computed', 'adversarial 30-round interleavings of real threads (outside E3\'s reach)'])
WORKERS = 5     # each query needs 2-10 GB (cbmc + kissat): bounded parallelism keeps the machine out of swap / the OOM killer
