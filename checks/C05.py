"""C05: timed and cancellable waits return for the stated reason, holding the lock."""
from checks import e3check

QUICK = ['e2_h_mu_wait_U2_R1', 'mw_btimed_setb_R3']
THOROUGH = ['e2_h_cv_wait_U2_R1', 'cv_timed_siginside_R3', 'mw_btimed_setb_R4', 'cv_timed_sigafter_R3', 'mw_a_btimed_setab_R3', 'cv_timed_siginside_R4']
scenarios, jobs, confirm, info = e3check.make('C05', QUICK, THOROUGH, '(a) E2 harness h_mu_wait (quick) and h_cv_wait (thorough here; it also runs in the quick tier of C04): nsync_mu_wait_with_deadline and nsync_cv_wait_with_deadline run under arbitrary interference on the mutex word, with and without a timeout, entered in read or write mode: they return holding the mutex in the mode of entry (ghost mode from the guarantee). (b) E3 scenarios with a solver-chosen deadline and clock: the harness asserts at every return r==0 or ETIMEDOUT, ETIMEDOUT only with clock >= deadline, mu_wait returns 0 exactly when the condition is true, shadow occupancy counters.', ['nsync_mu_wait_with_deadline', 'mu_try_acquire_after_timeout_or_cancel', 'nsync_cv_wait_with_deadline_generic', 'nsync_sem_wait_with_cancel_'], ['cancellation notes (ECANCELED paths) are excluded from these scenarios: cancel_note is NULL'])
WORKERS = 3     # each query needs 2-10 GB (cbmc + kissat): bounded parallelism keeps the machine out of swap / the OOM killer
