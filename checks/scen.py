"""Catalogue of E3 (seqcc) scenarios.  Each entry: name -> Scenario; PROPS maps a property to the scenario names of each tier."""
from lib.e3 import Scenario

MU_UNITS = ['internal/mu.c', 'internal/common.c', 'internal/dll.c']
CV_UNITS = MU_UNITS + ['internal/cv.c', 'internal/sem_wait.c', 'internal/note.c', 'internal/mu_wait.c', 'internal/wait.c', 'internal/counter.c',
                       'internal/time_internal.c', 'platform/posix/src/time_rep.c']
ONCE_UNITS = CV_UNITS + ['internal/once.c']
DBG_UNITS = CV_UNITS + ['internal/debug.c']

CONSTG = ['Xwriter_type', 'Xreader_type', 'nsync_writer_type_', 'nsync_reader_type_']
UNROLL = {'*': 1, 'nsync_spin_test_and_set_': 1}


def build():
    S = {}

    def add(name, harness, threads, R, units, ninit=0, nfinal=0, sem='counting', pools=None, unroll=None, extra=None, excl=(), defines=(), **kw):
        defs = (['VF_BINARY_SEM'] if sem == 'binary' else []) + list(defines)
        nopool = (pools == {})       # explicitly no heap at all (C++ time unit); NB: evaluated before 'extra_waiters' is popped below
        nsched = len(threads) - ninit - nfinal
        p = {'waiter': {'type': 'struct.waiter', 'count': nsched + (1 if ninit or nfinal else 0) + (pools or {}).pop('extra_waiters', 0) if pools else nsched + 1}}
        if pools:
            p.update(pools)
        ce = {'const_globals': CONSTG, 'exclude_fns': list(excl)}
        if extra:
            ce.update(extra)
        if nopool:
            p = {}
        sc = Scenario('%s_R%d%s' % (name, R, '_bin' if sem == 'binary' else ''), harness, threads, units=units, R=R, ninit=ninit, nfinal=nfinal, defines=defs, pools=p,
                      unroll=unroll or dict(UNROLL), cfg_extra=ce, **kw)
        S[sc.name] = sc
        return sc.name

    NOTE_FN = ['note_*', 'notify', 'nsync_note_*', 'no_children']
    CTR_FN = ['counter_*', 'nsync_counter_*']
    CVW_FN = ['cv_enqueue', 'cv_dequeue', 'cv_ready_time']
    WN_FN = ['nsync_wait_n']
    ONLY_MU = NOTE_FN + CTR_FN + CVW_FN + WN_FN
    # ---- mutex only
    for R in (3, 4, 5):
        add('mu_w_w', 'mu_basic.c', ['thread_w', 'thread_w', 'final_check'], R, MU_UNITS, nfinal=1)
        add('mu_w_r', 'mu_basic.c', ['thread_w', 'thread_r', 'final_check'], R, MU_UNITS, nfinal=1)
    add('mu_w_w', 'mu_basic.c', ['thread_w', 'thread_w', 'final_check'], 3, MU_UNITS, nfinal=1, sem='binary')
    add('mu_w_r', 'mu_basic.c', ['thread_w', 'thread_r', 'final_check'], 4, MU_UNITS, nfinal=1, sem='binary')
    add('mu_w_try', 'mu_basic.c', ['thread_w', 'thread_try', 'final_check'], 3, MU_UNITS, nfinal=1)
    add('mu_r_rtry', 'mu_basic.c', ['thread_r', 'thread_rtry', 'final_check'], 3, MU_UNITS, nfinal=1)
    for R in (3, 4):
        add('mu_r_r_w', 'mu_basic.c', ['thread_r', 'thread_r', 'thread_w', 'final_check'], R, MU_UNITS, nfinal=1, timeout=3000)
        add('mu_w_w_w', 'mu_basic.c', ['thread_w', 'thread_w', 'thread_w', 'final_check'], R, MU_UNITS, nfinal=1, timeout=6000)
        add('mu_r_rtry_w', 'mu_basic.c', ['thread_r', 'thread_rtry', 'thread_w', 'final_check'], R, MU_UNITS, nfinal=1, timeout=3000)
    # ---- condition variables
    for R in (3, 4):
        add('cv_plain_siginside', 'cv_basic.c', ['waiter_plain', 'signal_inside', 'final_check'], R, CV_UNITS, nfinal=1, excl=ONLY_MU, timeout=3000)
        add('cv_plain_sigafter', 'cv_basic.c', ['waiter_plain', 'signal_after', 'final_check'], R, CV_UNITS, nfinal=1, excl=ONLY_MU, timeout=3000)
        add('cv_timed_siginside', 'cv_basic.c', ['waiter_timed', 'signal_inside', 'final_check'], R, CV_UNITS, nfinal=1, excl=ONLY_MU, timeout=3000)
        add('cv_timed_sigafter', 'cv_basic.c', ['waiter_timed', 'signal_after', 'final_check'], R, CV_UNITS, nfinal=1, excl=ONLY_MU, timeout=3000)
        add('cv_reader_siginside', 'cv_basic.c', ['waiter_reader', 'signal_inside', 'final_check'], R, CV_UNITS, nfinal=1, excl=ONLY_MU, timeout=3000)
        add('cv_timed_plain_siginside', 'cv_basic.c', ['waiter_timed', 'waiter_plain', 'signal_inside', 'final_check'], R, CV_UNITS, nfinal=1, excl=ONLY_MU, timeout=6000)
        add('cv_plain_plain_bcast', 'cv_basic.c', ['waiter_plain', 'waiter_plain', 'broadcast_inside', 'final_check'], R, CV_UNITS, nfinal=1, excl=ONLY_MU, timeout=6000)
        add('cv_plain_sigreader_reader', 'cv_basic.c', ['waiter_plain', 'signal_as_reader', 'reader_section', 'final_check'], R, CV_UNITS, nfinal=1, excl=ONLY_MU, timeout=6000)
    add('cv_plain_siginside', 'cv_basic.c', ['waiter_plain', 'signal_inside', 'final_check'], 3, CV_UNITS, nfinal=1, excl=ONLY_MU, sem='binary', timeout=3000)
    # ---- conditional critical sections
    for R in (3, 4):
        add('mw_a_seta', 'muwait_basic.c', ['wait_a', 'set_a', 'final_check'], R, CV_UNITS, nfinal=1, excl=ONLY_MU, timeout=3000)
        add('mw_ra_seta', 'muwait_basic.c', ['rwait_a', 'set_a', 'final_check'], R, CV_UNITS, nfinal=1, excl=ONLY_MU, timeout=3000)
        add('mw_btimed_setb', 'muwait_basic.c', ['wait_b_timed', 'set_b', 'final_check'], R, CV_UNITS, nfinal=1, excl=ONLY_MU, timeout=3000)
        add('mw_a_b_setab', 'muwait_basic.c', ['wait_a', 'wait_b', 'set_ab', 'final_check'], R, CV_UNITS, nfinal=1, excl=ONLY_MU, timeout=6000)
        add('mw_ra_b_seta_then_b', 'muwait_basic.c', ['rwait_a', 'wait_b', 'set_a_then_b', 'final_check'], R, CV_UNITS, nfinal=1, excl=ONLY_MU, timeout=6000)
        add('mw_aeq1_aeq2_seta', 'muwait_basic.c', ['wait_a_eq1', 'wait_a_eq2', 'set_a', 'final_check'], R, CV_UNITS, nfinal=1, excl=ONLY_MU, timeout=6000)
        add('mw_a_nowake_seta', 'muwait_basic.c', ['wait_a', 'touch_nowake', 'set_a', 'final_check'], R, CV_UNITS, nfinal=1, excl=ONLY_MU, timeout=6000)
        add('mw_a_btimed_setab', 'muwait_basic.c', ['wait_a', 'wait_b_timed', 'set_ab', 'final_check'], R, CV_UNITS, nfinal=1, excl=ONLY_MU, timeout=6000)
    # ---- once
    BIG = {'max_cells': 400}
    for R in (3, 4):
        add('once_block_block', 'once_basic.c', ['caller_block', 'caller_block', 'final_check'], R, ONCE_UNITS, nfinal=1, excl=ONLY_MU, extra=BIG, timeout=3000)
        add('once_block_spin', 'once_basic.c', ['caller_block', 'caller_spin', 'final_check'], R, ONCE_UNITS, nfinal=1, excl=ONLY_MU, extra=BIG, timeout=3000)
        add('once_spin_argspin', 'once_basic.c', ['caller_spin', 'caller_arg_spin', 'final_check'], R, ONCE_UNITS, nfinal=1, excl=ONLY_MU, extra=BIG, timeout=3000)
        add('once_nested_block', 'once_basic.c', ['caller_nested', 'caller_block', 'final_check'], R, ONCE_UNITS, nfinal=1, excl=ONLY_MU, extra=BIG, timeout=6000)
        add('once_nested_block_u2', 'once_basic.c', ['caller_nested', 'caller_block', 'final_check'], R, ONCE_UNITS, nfinal=1, excl=ONLY_MU, extra=BIG, timeout=6000, unroll={'*': 2})
        add('oncep_nested_block', 'once_basic.c', ['caller_nested', 'caller_block', 'final_check'], R, ONCE_UNITS, nfinal=1, excl=ONLY_MU, timeout=6000,
            extra=dict(BIG, prune_calls=[['nsync_mu_lock', 'nsync_waiter_new_'], ['nsync_mu_rlock', 'nsync_waiter_new_']]))
        add('oncep_nested_block_w', 'once_basic.c', ['caller_nested', 'caller_block', 'final_check'], R - 1, ONCE_UNITS, nfinal=1, excl=ONLY_MU, timeout=6000,
            extra=dict(BIG, prune_calls=[['nsync_mu_lock', 'nsync_waiter_new_'], ['nsync_mu_rlock', 'nsync_waiter_new_']]),
            unroll={'*': 1, 'nsync_cv_broadcast': 2, 'wake_waiters': 2, 'nsync_mu_unlock_slow_': 2, 'nsync_cv_wait_with_deadline_generic': 2, 'nsync_mu_lock_slow_': 2})
        add('oncep_passive', 'once_basic.c', ['other_then_finish', 'caller_block', 'setup_running', 'final_check_b'], R + 2, ONCE_UNITS, ninit=1, nfinal=1, excl=ONLY_MU, timeout=6000,
            extra=dict(BIG, prune_calls=[['nsync_mu_lock', 'nsync_waiter_new_'], ['nsync_mu_rlock', 'nsync_waiter_new_']]))
        add('once_nested', 'once_basic.c', ['caller_nested', 'caller_nested', 'final_check_b'], R, ONCE_UNITS, nfinal=1, excl=ONLY_MU, extra=BIG, timeout=6000)
        add('once_arg_twice', 'once_basic.c', ['caller_arg', 'caller_twice', 'final_check'], R, ONCE_UNITS, nfinal=1, excl=ONLY_MU, extra=BIG, timeout=3000)
        add('once_block_block_other', 'once_basic.c', ['caller_block', 'caller_block', 'caller_other', 'final_check_b'], R, ONCE_UNITS, nfinal=1, excl=ONLY_MU, extra=BIG, timeout=6000)
    # ---- counter
    CTR = {'counter': {'type': 'struct.nsync_counter_s_', 'count': 1}}
    for R in (3, 4):
        add('ctr_dec2_wait', 'counter_basic.c', ['dec_twice', 'waiter', 'setup', 'final_check'], R, CV_UNITS, ninit=1, nfinal=1, pools=dict(CTR), excl=NOTE_FN + CVW_FN, timeout=3000)
        add('ctr_dec2_timed', 'counter_basic.c', ['dec_twice', 'waiter_timed', 'setup', 'final_check'], R, CV_UNITS, ninit=1, nfinal=1, pools=dict(CTR), excl=NOTE_FN + CVW_FN, timeout=3000)
        add('ctr_passive_timed_dec', 'counter_basic.c', ['waiter_timed1', 'dec_once', 'setup_passive', 'final_passive'], R, CV_UNITS, ninit=1, nfinal=1, pools=dict(CTR), excl=NOTE_FN + CVW_FN, timeout=3000,
            unroll={'*': 1, 'nsync_wait_n': 2, 'nsync_counter_add': 3})
        add('ctr_dec2_timed_u2', 'counter_basic.c', ['dec_twice', 'waiter_timed', 'setup', 'final_check'], R, CV_UNITS, ninit=1, nfinal=1, pools=dict(CTR), excl=NOTE_FN + CVW_FN, timeout=6000,
            unroll={'*': 1, 'nsync_wait_n': 2, 'nsync_counter_add': 2})
        add('ctr_dec_dec_wait', 'counter_basic.c', ['dec', 'dec', 'waiter', 'setup', 'final_check'], R, CV_UNITS, ninit=1, nfinal=1, pools=dict(CTR), excl=NOTE_FN + CVW_FN, timeout=6000)
        add('ctr_dec_dec_timed', 'counter_basic.c', ['dec', 'dec', 'waiter_timed', 'setup', 'final_check'], R, CV_UNITS, ninit=1, nfinal=1, pools=dict(CTR), excl=NOTE_FN + CVW_FN, timeout=6000)
        add('ctr_dec_dec_reader', 'counter_basic.c', ['dec', 'dec', 'reader', 'setup', 'final_check'], R, CV_UNITS, ninit=1, nfinal=1, pools=dict(CTR), excl=NOTE_FN + CVW_FN, timeout=6000)
        add('ctr_dec_dec_late', 'counter_basic.c', ['dec', 'dec', 'late_waiter', 'setup', 'final_check'], R, CV_UNITS, ninit=1, nfinal=1, pools=dict(CTR), excl=NOTE_FN + CVW_FN, timeout=6000)
    # ---- notes
    # contended mutex paths pruned (see NOTEP below): small programs; the waiter comes first so that two rounds already cover "waiter blocks, decrementers run, waiter times out, sweep continues"
    MUPRUNE = {'prune_fns': ['nsync_mu_lock_slow_', 'nsync_mu_unlock_slow_'], 'prune_calls': [['nsync_mu_lock', 'nsync_waiter_new_'], ['nsync_mu_rlock', 'nsync_waiter_new_']]}
    for R in (2, 3):
        add('ctrp_timed_dec2', 'counter_basic.c', ['waiter_timed', 'dec_twice', 'setup', 'final_check'], R, CV_UNITS, ninit=1, nfinal=1, pools=dict(CTR), excl=NOTE_FN + CVW_FN, timeout=6000,
            extra=MUPRUNE, unroll={'*': 1, 'nsync_wait_n': 2, 'nsync_counter_add': 2})
        add('ctrp_wait_dec2', 'counter_basic.c', ['waiter', 'dec_twice', 'setup', 'final_check'], R, CV_UNITS, ninit=1, nfinal=1, pools=dict(CTR), excl=NOTE_FN + CVW_FN, timeout=6000,
            extra=MUPRUNE, unroll={'*': 1, 'nsync_wait_n': 2, 'nsync_counter_add': 2})
    NOTE = {'note': {'type': 'struct.nsync_note_s_', 'count': 4}}
    # notes without deadlines: the lazy-expiry notify inside nsync_note_notified_deadline_ is asserted unreachable (and the clock is frozen)
    NOEXP = {'exclude_calls': [['nsync_note_notified_deadline_', 'notify']], 'max_rec': 3}
    for R in (3, 4):
        add('note_notifyroot_waitchild', 'note_basic.c', ['notify_root', 'wait_child', 'setup_pair', 'final_pair_notified'], R, CV_UNITS, ninit=1, nfinal=1, pools=dict(NOTE), extra=NOEXP, defines=['VF_FROZEN_CLOCK'], excl=CTR_FN + CVW_FN, timeout=6000)
        add('note_notifyroot_pollchild', 'note_basic.c', ['notify_root', 'poll_child', 'setup_pair', 'final_pair_notified'], R, CV_UNITS, ninit=1, nfinal=1, optional=True, pools=dict(NOTE), extra=NOEXP, defines=['VF_FROZEN_CLOCK'], excl=CTR_FN + CVW_FN, timeout=6000)
        add('note_notifyroot_notifychild', 'note_basic.c', ['notify_root', 'notify_child', 'setup_tree', 'final_tree_notified'], R, CV_UNITS, ninit=1, nfinal=1, pools=dict(NOTE), extra=NOEXP, defines=['VF_FROZEN_CLOCK'], excl=CTR_FN + CVW_FN, timeout=6000)
        add('note_notifychild_siblings', 'note_basic.c', ['notify_child', 'poll_child', 'setup_pair', 'final_siblings'], R, CV_UNITS, ninit=1, nfinal=1, pools=dict(NOTE), extra=NOEXP, defines=['VF_FROZEN_CLOCK'], excl=CTR_FN + CVW_FN, timeout=6000)
        add('note_newunderroot_notifyroot', 'note_basic.c', ['new_under_root', 'notify_root', 'setup_pair', 'final_new_child_notified'], R, CV_UNITS, ninit=1, nfinal=1, pools=dict(NOTE), extra=NOEXP, defines=['VF_FROZEN_CLOCK'], excl=CTR_FN + CVW_FN, timeout=6000)
        add('note_freechild_notifyroot', 'note_basic.c', ['free_child', 'notify_root', 'setup_tree', 'final_after_free_child'], R, CV_UNITS, ninit=1, nfinal=1, optional=True, pools=dict(NOTE), extra=NOEXP, defines=['VF_FROZEN_CLOCK'], excl=CTR_FN + CVW_FN, timeout=6000)
        add('note_freegrand_freechild', 'note_basic.c', ['free_grand', 'free_child', 'setup_tree', 'final_siblings'], R, CV_UNITS, ninit=1, nfinal=1, pools=dict(NOTE), extra=NOEXP, defines=['VF_FROZEN_CLOCK'], excl=CTR_FN + CVW_FN, timeout=6000)
    # notes with the CONTENDED mutex paths pruned: only schedules in which no thread finds a note mutex held are explored (bound, stated);
    # this keeps the programs small enough, and the windows of the C08 / C13 seeds need no contention
    NOTEP = dict(NOEXP); NOTEP['prune_fns'] = ['nsync_mu_lock_slow_', 'nsync_mu_unlock_slow_']; NOTEP['max_rec'] = 2
    NOTEP['prune_calls'] = [['nsync_mu_lock', 'nsync_waiter_new_'], ['nsync_mu_rlock', 'nsync_waiter_new_']]
    NPU = {'*': 1, 'nsync_wait_n': 2, 'note_notify_child': 2}
    for R in (2, 3):
        add('notep_newunderroot_notifyroot', 'note_basic.c', ['new_under_root', 'notify_root', 'setup_pair', 'final_new_child_notified'], R, CV_UNITS, ninit=1, nfinal=1, pools=dict(NOTE), extra=NOTEP,
            excl=CTR_FN + CVW_FN, unroll=NPU, defines=['VF_FROZEN_CLOCK'], timeout=6000)
        add('notep_waitchildtimed_notifyroot', 'note_basic.c', ['wait_child_timed', 'notify_root', 'setup_pair', 'final_pair_notified'], R, CV_UNITS, ninit=1, nfinal=1, pools=dict(NOTE), extra=NOTEP,
            excl=CTR_FN + CVW_FN, unroll=NPU, timeout=6000)
        add('notep_waitchildtimedF_notifyroot', 'note_basic.c', ['wait_child_timed', 'notify_root', 'setup_pair', 'final_pair_notified'], R, CV_UNITS, ninit=1, nfinal=1, pools=dict(NOTE), extra=NOTEP,
            excl=CTR_FN + CVW_FN, unroll=NPU, defines=['VF_FROZEN_CLOCK'], timeout=6000)
        add('notep_waitchildlean_notifyroot', 'note_basic.c', ['wait_child_timed_lean', 'notify_root_only', 'setup_pair', 'final_nothing'], R, CV_UNITS, ninit=1, nfinal=1, pools=dict(NOTE), extra=NOTEP,
            excl=CTR_FN + CVW_FN, unroll=NPU, defines=['VF_FROZEN_CLOCK'], timeout=6000)
        add('notep_waitrootlean_notifyroot', 'note_basic.c', ['wait_root_timed_lean', 'notify_root_only', 'setup_single', 'final_nothing'], R, CV_UNITS, ninit=1, nfinal=1, pools=dict(NOTE),
            extra=dict(NOTEP, max_rec=1), excl=CTR_FN + CVW_FN, unroll=NPU, defines=['VF_FROZEN_CLOCK'], timeout=6000)
        add('notep_notifyroot_pollchild', 'note_basic.c', ['notify_root', 'poll_child', 'setup_pair', 'final_pair_notified'], R, CV_UNITS, ninit=1, nfinal=1, pools=dict(NOTE), extra=NOTEP,
            excl=CTR_FN + CVW_FN, unroll=NPU, defines=['VF_FROZEN_CLOCK'], timeout=6000)
        add('notep_freechild_notifyroot', 'note_basic.c', ['free_child', 'notify_root', 'setup_tree', 'final_after_free_child'], R, CV_UNITS, ninit=1, nfinal=1, pools=dict(NOTE), extra=NOTEP,
            excl=CTR_FN + CVW_FN, unroll=NPU, defines=['VF_FROZEN_CLOCK'], timeout=6000)
        add('notep_freeroot_freechild', 'note_basic.c', ['free_root', 'free_child', 'setup_pair', 'final_nothing'], R, CV_UNITS, ninit=1, nfinal=1, pools=dict(NOTE), extra=NOTEP,
            excl=CTR_FN + CVW_FN, unroll={'*': 1, 'nsync_note_free': 2}, defines=['VF_FROZEN_CLOCK'], timeout=6000)
        add('notep_freechild_freegrand', 'note_basic.c', ['free_child', 'free_grand', 'setup_tree', 'final_siblings'], R, CV_UNITS, ninit=1, nfinal=1, pools=dict(NOTE), extra=NOTEP,
            excl=CTR_FN + CVW_FN, unroll={'*': 1, 'nsync_note_free': 2}, defines=['VF_FROZEN_CLOCK'], timeout=6000)
    # ---- cancellable waits (C05), contended entry to a held mutex pruned
    CANC = dict(NOTEP, max_rec=1)
    NOTE1 = {'note': {'type': 'struct.nsync_note_s_', 'count': 1}}
    for R in (2, 3):
        add('cancp_cv_notifier', 'cancel_basic.c', ['cv_waiter_cancel', 'notifier', 'setup', 'final_nothing'], R, CV_UNITS, ninit=1, nfinal=1, pools=dict(NOTE1), extra=CANC,
            excl=CTR_FN + CVW_FN + WN_FN, unroll={'*': 1, 'note_notify_child': 2, 'nsync_cv_wait_with_deadline_generic': 2, 'cv_waiter_cancel': 2, 'cv_waiter_cancel_timed': 2}, defines=['VF_FROZEN_CLOCK'], timeout=6000)
        add('cancp_cvtimed_notifier', 'cancel_basic.c', ['cv_waiter_cancel_timed', 'notifier', 'setup', 'final_nothing'], R, CV_UNITS, ninit=1, nfinal=1, pools=dict(NOTE1), extra=CANC,
            excl=CTR_FN + CVW_FN + WN_FN, unroll={'*': 1, 'note_notify_child': 2, 'nsync_cv_wait_with_deadline_generic': 2, 'cv_waiter_cancel': 2, 'cv_waiter_cancel_timed': 2}, timeout=6000)
        add('cancp_mu_notifier', 'cancel_basic.c', ['mu_waiter_cancel', 'notifier', 'setup', 'final_nothing'], R, CV_UNITS, ninit=1, nfinal=1, pools=dict(NOTE1),
            extra=dict(NOEXP, max_rec=1, prune_calls=[['nsync_mu_lock', 'nsync_waiter_new_'], ['nsync_mu_rlock', 'nsync_waiter_new_'], ['nsync_mu_unlock', 'nsync_mu_unlock_slow_'], ['nsync_mu_runlock', 'nsync_mu_unlock_slow_']]),
            excl=CTR_FN + CVW_FN + WN_FN, unroll={'*': 1, 'note_notify_child': 2, 'nsync_mu_wait_with_deadline': 2}, defines=['VF_FROZEN_CLOCK'], timeout=6000)
    # ---- wait_n
    WN = {'note': {'type': 'struct.nsync_note_s_', 'count': 1}, 'counter': {'type': 'struct.nsync_counter_s_', 'count': 1},
          'nwarr': {'type': 'struct.nsync_waiter_s', 'array': 5, 'count': 1}}
    NOEXP_WN = NOEXP
    WNU = {'*': 1, 'nsync_wait_n': 2}
    for R in (3, 4):
        add('wn_notectr_notifier', 'waitn_basic.c', ['waitn_note_ctr', 'notifier', 'setup', 'final_ready_again'], R, CV_UNITS, ninit=1, nfinal=1, pools=dict(WN), extra=NOEXP, excl=CVW_FN, unroll=WNU, timeout=6000)
        add('wn_notectr_dec', 'waitn_basic.c', ['waitn_note_ctr', 'decrementer', 'setup', 'final_ready_again'], R, CV_UNITS, ninit=1, nfinal=1, pools=dict(WN), extra=NOEXP, excl=CVW_FN, unroll=WNU, timeout=6000)
        add('wn_cvnote_signaller', 'waitn_basic.c', ['waitn_cv_note', 'signaller', 'setup', 'final_ready_again'], R, CV_UNITS, ninit=1, nfinal=1, pools=dict(WN), extra=NOEXP, excl=CTR_FN, unroll=WNU, timeout=6000)
        add('wn_cvnote_bcastafter', 'waitn_basic.c', ['waitn_cv_note', 'broadcaster_after', 'setup', 'final_ready_again'], R, CV_UNITS, ninit=1, nfinal=1, pools=dict(WN), extra=NOEXP, excl=CTR_FN, unroll=WNU, timeout=6000)
        add('wn_cvnote_nodl_signaller', 'waitn_basic.c', ['waitn_cv_note_nodl', 'signaller', 'setup', 'final_ready_again'], R, CV_UNITS, ninit=1, nfinal=1, pools=dict(WN), extra=NOEXP, excl=CTR_FN, unroll=WNU, timeout=6000)
        add('wn_cvnote_plain_signaller', 'waitn_basic.c', ['waitn_cv_note', 'plain_cv_waiter', 'signaller', 'setup', 'final_ready_again'], R, CV_UNITS, ninit=1, nfinal=1, pools=dict(WN), extra=NOEXP, excl=CTR_FN, unroll=WNU, timeout=9000)
    WC = {'counter': {'type': 'struct.nsync_counter_s_', 'count': 1}, 'nwarr': {'type': 'struct.nsync_waiter_s', 'array': 5, 'count': 1}}
    for R in (3, 4):
        add('wn_cvctr_signaller', 'waitn_basic.c', ['waitn_cv_ctr', 'signaller', 'setup_ctr', 'final_ready_again_noted'], R, CV_UNITS, ninit=1, nfinal=1, pools=dict(WC), unroll=WNU, excl=NOTE_FN, timeout=6000)
        add('wn_cvctr_dec', 'waitn_basic.c', ['waitn_cv_ctr', 'decrementer', 'setup_ctr', 'final_ready_again_noted'], R, CV_UNITS, ninit=1, nfinal=1, pools=dict(WC), unroll=WNU, excl=NOTE_FN, timeout=6000)
        add('wn_cvctr_bcastafter', 'waitn_basic.c', ['waitn_cv_ctr', 'broadcaster_after', 'setup_ctr', 'final_ready_again_noted'], R, CV_UNITS, ninit=1, nfinal=1, pools=dict(WC), unroll=WNU, excl=NOTE_FN, timeout=6000)
        add('wn_ctr_dec', 'waitn_basic.c', ['waitn_ctr', 'decrementer', 'setup_ctr', 'final_ready_again_noted'], R, CV_UNITS, ninit=1, nfinal=1, pools=dict(WC), unroll=WNU, excl=NOTE_FN + CVW_FN, timeout=6000)
        add('wn_cvctr_plain_signaller', 'waitn_basic.c', ['waitn_cv_ctr', 'plain_cv_waiter', 'signaller', 'setup_ctr', 'final_ready_again_noted'], R, CV_UNITS, ninit=1, nfinal=1, pools=dict(WC), unroll=WNU, excl=NOTE_FN, timeout=9000)
    for R in (2, 3, 4):
        add('wn_cv_sigafter', 'waitn_basic.c', ['waitn_cv', 'signaller_after', 'final_cv_again'], R, CV_UNITS, nfinal=1, unroll=WNU, excl=NOTE_FN + CTR_FN, timeout=6000)
        add('wn_cv_bcastafter', 'waitn_basic.c', ['waitn_cv', 'broadcaster_after', 'final_cv_again'], R, CV_UNITS, nfinal=1, unroll=WNU, excl=NOTE_FN + CTR_FN, timeout=6000)
        add('wn_cv_signaller', 'waitn_basic.c', ['waitn_cv', 'signaller', 'final_cv_again'], R, CV_UNITS, nfinal=1, unroll=WNU, excl=NOTE_FN + CTR_FN, timeout=6000)
    # ---- refcount (C13)
    OBJ = {'obj': {'type': 'struct.obj', 'count': 1}}
    for R in (3, 4, 5):
        add('ref_user_user', 'refcount.c', ['user', 'user', 'setup2'], R, MU_UNITS, ninit=1, pools=dict(OBJ), timeout=3000)
        add('ref_user_ruser', 'refcount.c', ['user', 'ruser', 'setup2'], R, MU_UNITS, ninit=1, pools=dict(OBJ), timeout=3000)
    for R in (3, 4):
        add('ref_user_user_user', 'refcount.c', ['user', 'user', 'user', 'setup3'], R, MU_UNITS, ninit=1, pools=dict(OBJ), timeout=6000)
    # ---- debug (C16)
    NOOP = {'noop': ['emit_print', 'emit_c'], 'max_cells': 400}
    for R in (3, 4):
        DU = {'*': 1, 'emit_word': 10, 'emit_waiters': 3}
        add('dbg_locker_locker_mudebug', 'debug_conc.c', ['locker', 'locker', 'mu_debugger', 'final_check'], R, DBG_UNITS, nfinal=1, excl=ONLY_MU, extra=NOOP, unroll=DU, timeout=6000)
        add('dbg_locker_mudebug', 'debug_conc.c', ['locker', 'mu_debugger', 'final_check'], R, DBG_UNITS, nfinal=1, excl=ONLY_MU, extra=NOOP, unroll=DU, timeout=6000)
        add('dbg_locker_rlocker_mudebug', 'debug_conc.c', ['locker', 'rlocker', 'mu_debugger', 'final_check'], R, DBG_UNITS, nfinal=1, excl=ONLY_MU, extra=NOOP, unroll=DU, timeout=6000)
        add('dbg_cvwaiter_signaller_cvdebug', 'debug_conc.c', ['cv_waiter', 'cv_signaller', 'cv_debugger', 'final_check'], R, DBG_UNITS, nfinal=1, excl=ONLY_MU, extra=NOOP, unroll=DU, timeout=6000)
    # ---- C03: happens-before from the declared orders (vector clocks in the runtime)
    HB = {'hb': True, 'hb_objects': ['x', 'flag', 'y', 'z', 'v']}    # race oracle on the client data; the '_all' variants also check every nsync field
    def hb(name, threads, R, units, **kw):
        ex = dict(HB); ex.update(kw.pop('extra', {}))
        add('hb_' + name, 'hb_basic.c', threads, R, units, extra=ex, defines=['VF_HB'] + kw.pop('defines', []), **kw)
    for R in (3, 4):
        hb('w_w', ['t_writer', 't_writer', 'final_x'], R, MU_UNITS, nfinal=1, timeout=3000)
        hb('w_w_all', ['t_writer', 't_writer', 'final_x'], R, MU_UNITS, nfinal=1, timeout=6000, extra={'hb_objects': None})
        hb('w_r_all', ['t_writer', 't_reader', 'final_x'], R, MU_UNITS, nfinal=1, timeout=6000, extra={'hb_objects': None})
        hb('w_r', ['t_writer', 't_reader', 'final_x'], R, MU_UNITS, nfinal=1, timeout=3000)
        hb('w_try', ['t_writer', 't_trywriter', 'final_x'], R, MU_UNITS, nfinal=1, timeout=3000)
        hb('w2_w', ['t_writer2', 't_writer', 'final_x'], R, MU_UNITS, nfinal=1, timeout=3000)
        hb('w_w_w', ['t_writer', 't_writer', 't_writer', 'final_x'], R, MU_UNITS, nfinal=1, timeout=9000)
        hb('passive_w_w', ['t_writer', 't_writer', 'setup_passive_writer', 'final_x'], R, MU_UNITS, ninit=1, nfinal=1, timeout=6000, unroll={'*': 1, 'nsync_mu_unlock_slow_': 2},
           defines=['VF_NO_DEADLOCK_CHECK'])    # the passive queued writer never runs, so once it has been chosen as designated waker later sleepers are not woken: only the happens-before oracle is meaningful here
        hb('cv', ['t_cv_waiter', 't_cv_signaller', 'final_x'], R, CV_UNITS, nfinal=1, excl=ONLY_MU, timeout=6000)
        hb('mw', ['t_mw_waiter', 't_mw_setter', 'final_x'], R, CV_UNITS, nfinal=1, excl=ONLY_MU, timeout=6000)
        hb('once', ['t_once', 't_once', 'final_x'], R, ONCE_UNITS, nfinal=1, excl=ONLY_MU, extra={'max_cells': 400}, timeout=6000)
        hb('once_spin', ['t_once_spin', 't_once_spin', 'final_x'], R, ONCE_UNITS, nfinal=1, excl=ONLY_MU, extra={'max_cells': 400}, timeout=3000)
        hb('ctr_wait', ['t_ctr_dec', 't_ctr_waiter', 'setup_ctr', 'final_x'], R, CV_UNITS, ninit=1, nfinal=1, pools={'counter': {'type': 'struct.nsync_counter_s_', 'count': 1}},
           excl=NOTE_FN + CVW_FN, timeout=6000)
        hb('ctr_obs', ['t_ctr_dec', 't_ctr_observer', 'setup_ctr', 'final_x'], R, CV_UNITS, ninit=1, nfinal=1, pools={'counter': {'type': 'struct.nsync_counter_s_', 'count': 1}},
           excl=NOTE_FN + CVW_FN, timeout=3000)
        hb('note_obs', ['t_notifier', 't_note_observer', 'setup_note', 'final_x'], R, CV_UNITS, ninit=1, nfinal=1, pools={'note': {'type': 'struct.nsync_note_s_', 'count': 1}},
           excl=CTR_FN + CVW_FN, extra={'exclude_calls': [['nsync_note_notified_deadline_', 'notify']], 'max_rec': 2}, defines=['VF_FROZEN_CLOCK'], timeout=6000)
    # ---- C18, C++ build: platform/c++11/src/time_rep_timespec.cc through the IR route (single thread, one context)
    for fn in ['h_cpp_add', 'h_cpp_sub', 'h_cpp_cmp']:
        add('cpp_' + fn, 'time_cpp.cc', [fn], 1, ['platform/c++11/src/time_rep_timespec.cc'], pools={}, defines=['VF_NO_DEADLOCK_CHECK'], timeout=600,
            solver=())
    # ---- C19: allocation failure (single thread, one context, loops unrolled)
    AF = {'malloc_fail_flag': 'fail_alloc', 'exclude_calls': [['nsync_note_notified_deadline_', 'notify']], 'max_rec': 2}
    for U in (2, 3):
        add('af_note_U%d' % U, 'alloc_fail.c', ['h_note'], 1, CV_UNITS, pools={'note': {'type': 'struct.nsync_note_s_', 'count': 4}}, extra=AF,
            excl=CTR_FN + CVW_FN + ['nsync_mu_lock_slow_', 'nsync_mu_unlock_slow_'],   # single thread: the contended paths are asserted unreachable (a mutex left locked trips that assertion)
            unroll={'*': U, 'nchildren': 4, 'note_notify_child': 3}, defines=['VF_FROZEN_CLOCK'], timeout=1800)
        add('af_counter_U%d' % U, 'alloc_fail.c', ['h_counter'], 1, CV_UNITS, pools={'counter': {'type': 'struct.nsync_counter_s_', 'count': 1}}, extra=AF, excl=NOTE_FN + CVW_FN,
            unroll={'*': U}, defines=['VF_FROZEN_CLOCK'], timeout=600)
    add('ns_cv_registration', 'waitn_basic.c', ['h_cv_registration'], 1, CV_UNITS, excl=NOTE_FN + CTR_FN + ['nsync_wait_n'], unroll={'*': 3}, timeout=600)
    # ---- C08 / C09 sequential half (single thread, one context)
    NS = {'exclude_calls': [['nsync_note_notified_deadline_', 'notify']], 'max_rec': 3}
    for fn in ['h_expiry', 'h_notify_child', 'h_notify_root', 'h_new_under_notified', 'h_free_adopt']:
        add('ns_' + fn, 'note_seq.c', [fn], 1, CV_UNITS, optional=(fn in ('h_notify_root',)), pools={'note': {'type': 'struct.nsync_note_s_', 'count': 4}}, extra=NS,
            excl=CTR_FN + CVW_FN + ['nsync_mu_lock_slow_', 'nsync_mu_unlock_slow_', 'nsync_sem_wait_with_cancel_', 'mu_try_acquire_after_timeout_or_cancel'],
            unroll={'*': 2, 'note_notify_child#0': 1, 'note_notify_child#1': 3, 'nsync_note_free#0': 2}, defines=['VF_FROZEN_CLOCK'], timeout=3000)
    # ---- E2: thread-modular step checks (one thread + environment), see harness/e3/e2_word.c
    E2U = CV_UNITS + ['internal/debug.c']
    E2X = {'atomic_hooks': {'pre': 'vf_env', 'write': 'vf_guar'}, 'noop': ['emit_print', 'emit_c'], 'max_cells': 400, 'tls_init': {'waiter_for_thread': ['MEW']}}
    # one context (R=1), every loop unrolled U times: with a single thread there is nothing to interleave, the environment acts inside the hooks
    for fn in ['h_lock', 'h_rlock', 'h_trylock', 'h_rtrylock', 'h_unlock', 'h_runlock', 'h_unlock_nowake', 'h_mu_wait', 'h_cv_wait', 'h_mu_wait_w', 'h_mu_wait_r', 'h_cv_wait_w', 'h_cv_wait_r', 'h_debug', 'h_cv_signal', 'h_cv_debug']:
        for U in (2, 3):
            ur = {'*': U, 'setup': 3, 'setup_cv': 3, 'rely_ok': 3, 'emit_word': 10, 'emit_waiters': 4}
            if fn.startswith(('h_mu_wait', 'h_cv_wait')) and U == 2:
                ur['nsync_mu_lock_slow_#0'] = 1      # the re-acquisition after the wait may queue and sleep once more only in the U=3 variants (cost)
            sc = add('e2_%s_U%d' % (fn, U), 'e2_word.c', [fn], 1, E2U, excl=ONLY_MU, extra=E2X, pools={'extra_waiters': 0}, timeout=1800, unroll=ur,
                     defines=['VF_NO_DEADLOCK_CHECK'])
    # C14: the for(;;) of nsync_mu_lock_slow_ unrolled past LONG_WAIT_THRESHOLD (30) sleeps
    add('e2_h_lock_long_U33', 'e2_word.c', ['h_lock_long'], 1, E2U, excl=ONLY_MU, extra=E2X, pools={'extra_waiters': 0}, timeout=3000,
        unroll={'*': 2, 'setup': 3, 'setup_cv': 3, 'rely_ok': 3, 'nsync_mu_lock_slow_#0': 33}, defines=['VF_NO_DEADLOCK_CHECK'])
    add('e2_h_lock_long_U5', 'e2_word.c', ['h_lock_long'], 1, E2U, excl=ONLY_MU, extra=E2X, pools={'extra_waiters': 0}, timeout=3000,
        unroll={'*': 2, 'setup': 3, 'setup_cv': 3, 'rely_ok': 3, 'nsync_mu_lock_slow_#0': 5}, defines=['VF_NO_DEADLOCK_CHECK'])
    return S


_S = None


def all_scenarios():
    global _S
    if _S is None:
        _S = build()
    return _S
