"""C16: the debug-state functions only observe."""
from checks import e3check

QUICK = ['e2_h_debug_U2_R1', 'e2_h_cv_debug_U2_R1', 'dbg_locker_mudebug_R3']
THOROUGH = ['e2_h_debug_U3_R1', 'dbg_locker_locker_mudebug_R3', 'dbg_locker_rlocker_mudebug_R3', 'dbg_cvwaiter_signaller_cvdebug_R3']
scenarios, e3jobs, e3confirm, e3info = e3check.make('C16', QUICK, THOROUGH, 'Concurrency half. E2 harness h_debug: nsync_mu_debug_state(_and_waiters) under arbitrary interference must change no lock bit and release the spinlock without disturbing other bits (guarantee check on its release store). E3: lockers + a debug caller with the C01/C02 oracles. Formatting is a no-op in these builds (emit_print excluded); the buffer half is not covered by a solver check (see DESIGN.md: CBMC does not get through the varargs formatter).', ['emit_mu_state', 'emit_cv_state', 'nsync_mu_debug_state', 'nsync_mu_debug_state_and_waiters', 'nsync_cv_debug_state_and_waiters'], ['buffer bounds / truncation marker for n in 0..80 (not decided by a solver check)'])
WORKERS = 8     # each query needs 2-10 GB (cbmc + kissat): bounded parallelism keeps the machine out of swap / the OOM killer

from lib import e1, vf


EC_UNITS = ['internal/common.c', 'internal/dll.c', 'platform/posix/src/yield.c', 'platform/posix/src/per_thread_waiter.c', 'platform/posix/src/nsync_panic.c',
            'platform/linux/src/nsync_semaphore_futex.c', 'platform/posix/src/time_rep.c']     # only to link the native replay; unused by the query


def jobs(ctx):
    js = e3jobs(ctx)
    # buffer half, core mechanism: the real emit_c / emit_init of debug.c for every buffer size n (one query per n; the number of
    # emitted characters m <= 90 and the characters are symbolic)
    ns = list(range(0, 81))
    for n in ns:
        js.append(e1.make_job(ctx, 'emit_core_n%d' % n, 'C16/emit_core.c', EC_UNITS, 'harness', unwind=92, unwindset=['emit_c.0:6'], defines=['NFIX=%d' % n, 'NMAX=80', 'MMAX=90'],
                              timeout=600, desc='emit_init/emit_c with a buffer of exactly %d bytes, any text of up to 90 characters + final NUL' % n))
    for n in (0, 3, 40):
        js.append(e1.make_job(ctx, 'emit_core_n%d_witness' % n, 'C16/emit_core.c', EC_UNITS, 'harness', unwind=92, unwindset=['emit_c.0:6'], defines=['NFIX=%d' % n, 'NMAX=80', 'MMAX=90'],
                              timeout=600, expect='witness'))
    return js


def confirm(ctx, job, failure):
    if job.name.startswith('emit_core'):
        return e1.confirm(ctx, job, failure)
    return e3confirm(ctx, job, failure)


def info(ctx):
    d = e3info(ctx)
    d['explanation'] += (' BUFFER HALF (core mechanism): harness/C16/emit_core.c includes the real internal/debug.c and drives emit_init / emit_c directly (sequential CBMC, one query per buffer size n = 0..80, '
                         'text of m <= 90 symbolic characters followed by the final NUL): writes stay inside buf[0..n-1] (malloc(n) exactly + CBMC bounds checks), NUL-terminated for n >= 1, full text when it fits, '
                         'prefix + "..." when truncated and n >= 4. Every byte the debug-state functions produce goes through emit_c (by reading); the varargs formatter above it is not encoded.')
    d['units'] = sorted(set(d['units'] + ['internal/debug.c']))
    d['functions'] = d['functions'] + ['emit_init', 'emit_c']
    d['outside'] = [o for o in d['outside'] if 'buffer bounds' not in o] + ['emit_print / emit_word / emit_waiters (varargs formatting above emit_c): not encoded; that they write only through emit_c is established by reading']
    return d
