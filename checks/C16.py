"""C16: the debug-state functions only observe."""
from checks import e3check

QUICK = ['e2_h_debug_U2_R1', 'e2_h_cv_debug_U2_R1', 'dbg_locker_mudebug_R3']
THOROUGH = ['e2_h_debug_U3_R1', 'dbg_locker_locker_mudebug_R3', 'dbg_locker_rlocker_mudebug_R3', 'dbg_cvwaiter_signaller_cvdebug_R3']
scenarios, jobs, confirm, info = e3check.make('C16', QUICK, THOROUGH, 'Concurrency half. E2 harness h_debug: nsync_mu_debug_state(_and_waiters) under arbitrary interference must change no lock bit and release the spinlock without disturbing other bits (guarantee check on its release store). E3: lockers + a debug caller with the C01/C02 oracles. Formatting is a no-op in these builds (emit_print excluded); the buffer half is not covered by a solver check (see DESIGN.md: CBMC does not get through the varargs formatter).', ['emit_mu_state', 'emit_cv_state', 'nsync_mu_debug_state', 'nsync_mu_debug_state_and_waiters', 'nsync_cv_debug_state_and_waiters'], ['buffer bounds / truncation marker for n in 0..80 (not decided by a solver check)'])
WORKERS = 5     # each query needs 2-10 GB (cbmc + kissat): bounded parallelism keeps the machine out of swap / the OOM killer
