"""C02: a released mutex is always handed on: no deadlock, no lost lock wake-up; trylock never blocks."""
from lib import vf, e3
from lib.e3 import Scenario

MU_UNITS = ['internal/mu.c', 'internal/common.c', 'internal/dll.c']


def scenarios(ctx):
    th = ctx.tier == 'thorough'
    S = {}

    def add(name, threads, R, sem='counting', **kw):
        defs = ['VF_BINARY_SEM'] if sem == 'binary' else []
        sc = Scenario('%s_R%d_%s' % (name, R, sem), 'mu_basic.c', threads + ['final_check'], units=MU_UNITS, R=R, nfinal=1, defines=defs, **kw)
        S[sc.name] = sc
    add('w_w', ['thread_w', 'thread_w'], 4)
    add('w_r', ['thread_w', 'thread_r'], 4)
    add('w_w', ['thread_w', 'thread_w'], 3, sem='binary')
    add('r_r_w', ['thread_r', 'thread_r', 'thread_w'], 3, timeout=1500)
    add('w_try', ['thread_w', 'thread_try'], 3)
    add('r_rtry_w', ['thread_r', 'thread_rtry', 'thread_w'], 3, timeout=1500)
    if th:
        add('w_w', ['thread_w', 'thread_w'], 5, timeout=6000, optional=True)
        add('r_r_w', ['thread_r', 'thread_r', 'thread_w'], 4, timeout=10000, optional=True)
        add('w_w_w', ['thread_w', 'thread_w', 'thread_w'], 3, timeout=10000, optional=True)
        add('w_r', ['thread_w', 'thread_r'], 4, sem='binary', timeout=6000)
        add('w2_w', ['thread_w2', 'thread_w'], 4, timeout=10000, optional=True)
    return S


def jobs(ctx):
    js = []
    for sc in scenarios(ctx).values():
        js += e3.make_jobs(ctx, sc)
    return js


def confirm(ctx, job, failure):
    return e3.confirm(ctx, job, failure, scenarios(ctx))


def info(ctx):
    return {
        'engine': 'E3 seqcc: LLVM IR of the real units -> predicated resumable C over scalar memory cells -> CBMC + kissat; native re-execution of counterexample schedules',
        'explanation': 'Threads of harness/e3/mu_basic.c (lock/rlock/trylock/rtrylock ; critical section with a yield ; unlock) call the real internal/mu.c, common.c, dll.c (compiled by clang-14 to IR, '
                       'translated by seqcc). The schedule is a solver variable: R rounds of NT slots, per slot a symbolic budget of visible operations (atomic accesses, semaphore P/V, spin back-off). '
                       'Oracle: at every slot "some unfinished thread is enabled" (a thread asleep in P with count 0, or spinning while nobody can write, is disabled) - a violation is a deadlock / lost wake-up; '
                       'every thread must be able to finish (witness twin); trylock paths contain no blocking visible operation on any path taken. nsync ASSERTs, panics, wild pointers and use-after-free are '
                       'violations too. UNSAT = no schedule within the bounds violates.',
        'units': MU_UNITS,
        'functions': ['nsync_mu_lock', 'nsync_mu_rlock', 'nsync_mu_trylock', 'nsync_mu_rtrylock', 'nsync_mu_unlock', 'nsync_mu_runlock', 'nsync_mu_lock_slow_', 'nsync_mu_unlock_slow_',
                      'nsync_waiter_new_', 'nsync_waiter_free_', 'nsync_spin_test_and_set_', 'mu_release_spinlock', 'nsync_remove_from_mu_queue_', 'nsync_dll_*'],
        'bounds': {'threads': '2..3', 'rounds_R': '3..4 (thorough up to 5): each thread gets at most R contexts, i.e. schedules with up to R-1 preemptions per thread in round-robin order',
                   'loop iterations': 'a loop back-edge ends the context (resumed in the next round)', 'semaphores': 'counting and binary', 'waiter pool': 'one per thread'},
        'stubs': ['nsync_mu_semaphore_p/v/init = modelled semaphore (count cell)', 'nsync_spin_delay_ = visible spin point', 'nsync_yield_, per-thread-waiter destructor registration = no-ops', 'malloc = typed pool'],
        'assumptions': ['sequentially consistent interleavings of the atomic operations (C03 treats the declared orders)', 'plain accesses do not race (checked for the protected fields in C03)'],
        'outside': ['more than 3 threads, more than R contexts per thread', 'threads exiting/arriving is covered only as "thread takes a waiter from the free pool" (every thread starts without a waiter)'],
    }
