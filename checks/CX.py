"""scratch module for ad-hoc scenario runs: VERIF_SCEN=name1,name2 python3 run_check.py CX"""
import os
from checks import e3check
QUICK = os.environ.get('VERIF_SCEN', 'mu_w_w_R3').split(',')
THOROUGH = []
scenarios, jobs, confirm, info = e3check.make('CX', QUICK, THOROUGH, 'ad hoc', [], [])
WORKERS = 5     # each query needs 2-10 GB (cbmc + kissat): bounded parallelism keeps the machine out of swap / the OOM killer
