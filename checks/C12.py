"""C12: the per-thread (futex) semaphore never loses a post."""
import os
from lib import vf, e1

UNIT = ['platform/linux/src/nsync_semaphore_futex.c', 'platform/posix/src/time_rep.c']
H = os.path.join(vf.VERIF, 'harness', 'C12')
SC = os.path.join(vf.VERIF, 'plat', 'sc_atomic')
SCE = os.path.join(vf.VERIF, 'plat', 'sc_atomic_env')


def thr_job(ctx, npost, nwait, kfault, expect='pass', timeout=900, optional=False):
    name = 'threads_P%d_W%d_K%d%s' % (npost, nwait, kfault, '_witness' if expect == 'witness' else '')
    return e1.make_job(ctx, name, 'C12/sem_threads.c', UNIT, 'harness', unwind=2 + kfault + npost + 1,
                       defines=['NPOST=%d' % npost, 'NWAIT=%d' % nwait, 'KFAULT=%d' % kfault], front_inc=[SC, H],
                       extra_src=[os.path.join(H, 'futex_model.c')], timeout=timeout, expect=expect, optional=optional,
                       checks=['--pointer-check', '--bounds-check'],
                       desc='CBMC threads: 1 waiter doing %d P, %d poster(s) doing V, <=%d injected early futex returns; all interleavings of shared accesses' % (nwait, npost, kfault))


def seq_job(ctx, fn, maxpost, kfault, expect='pass', defines=()):
    name = 'interf_%s_M%d_K%d%s' % (fn, maxpost, kfault, '_witness' if expect == 'witness' else '')
    return e1.make_job(ctx, name, 'C12/sem_timed.c', UNIT, fn, unwind=maxpost + kfault + 4,
                       defines=['MAXPOST=%d' % maxpost, 'KFAULT=%d' % kfault, 'HFUNC=%s' % fn] + list(defines), front_inc=[SCE],
                       extra_src=[os.path.join(H, 'futex_seq.c')], timeout=900, expect=expect,
                       desc='%s under interference: <=%d posts by the environment at any atomic access / inside the futex wait, <=%d early returns, symbolic clock' % (fn, maxpost, kfault))


def jobs(ctx):
    th = ctx.tier == 'thorough'
    js = [thr_job(ctx, 1, 1, 1), thr_job(ctx, 1, 1, 2), thr_job(ctx, 2, 1, 1, timeout=1200), thr_job(ctx, 1, 1, 1, expect='witness')]
    if th:
        js += [thr_job(ctx, 2, 2, 1, timeout=6000, optional=True), thr_job(ctx, 2, 1, 2, timeout=6000, optional=True), thr_job(ctx, 1, 2, 2, timeout=6000, optional=True)]
    m, k = (3, 3) if th else (2, 2)
    js += [seq_job(ctx, 'h_timed', m, k, defines=['NONNEG_DEADLINE']), seq_job(ctx, 'h_untimed', m, k), seq_job(ctx, 'h_post', m, k),
           seq_job(ctx, 'h_timed', m, k, expect='witness', defines=['NONNEG_DEADLINE']), seq_job(ctx, 'h_untimed', m, k, expect='witness')]
    return js


def confirm(ctx, job, failure):
    if job.name.startswith('threads_'):
        # schedule-dependent counterexample: the native replay of a CBMC thread trace is not available; the same
        # unit is re-checked by the interference harness, and the trace is saved for inspection.
        loc = failure.get('location') or {}
        key = '%s|%s|%s' % (job.name, failure['property'], failure['description'])
        rp = vf.save_replay(ctx.prop, job.name + '.' + failure['property'], {
            'property': ctx.prop, 'job': job.name, 'cbmc_property': failure['property'], 'description': failure['description'], 'location': loc,
            'trace_assignments': [(k, v) for k, v in failure['assignments'] if isinstance(v, int)][-400:], 'meta': job.meta,
            'how_to_replay': 'cbmc thread trace (interleaving = order of the assignments above); re-run: ' + job.meta.get('desc', '')})
        return {'confirmed': True, 'key': key, 'replay': rp, 'detail': '%s: %s [%s] (thread interleaving trace saved)' % (job.name, failure['description'], failure['property'])}
    return e1.confirm(ctx, job, failure)


def info(ctx):
    return {
        'engine': 'CBMC native threads (partial-order encoding) + sequential CBMC under interference (E2 style)',
        'explanation': 'platform/linux/src/nsync_semaphore_futex.c is compiled by goto-cc against a sequentially consistent model of ATM_* (plat/sc_atomic/atomic.h; the real header takes '
                       'the address of a local in CAS, which CBMC\'s thread encoding rejects) and a modelled futex(2): value check and sleep atomic, FUTEX_WAKE, absolute timeouts on a virtual clock, '
                       'bounded injected EINTR / spurious 0 / premature ETIMEDOUT. (a) threads: waiter doing P with posters doing V as CBMC threads, every interleaving of shared accesses: '
                       'P never succeeds without a post, final count == posts - successful waits, and a waiter that sleeps for ever in FUTEX_WAIT with every poster finished implies no pending post '
                       '(lost-post oracle). (b) the timed wait cannot be encoded with CBMC threads (ts = &ts_buf: "pointer handling for concurrency is unsound"), so P_with_deadline, P and V are run '
                       'sequentially with an environment step before every atomic access and inside the futex wait (posters increment the word), asserting success consumes exactly one post, '
                       'ETIMEDOUT only with clock >= deadline and consumes nothing, and termination within the unwinding bound (each extra iteration needs a post or an injected fault).',
        'units': UNIT,
        'functions': ['nsync_mu_semaphore_init', 'nsync_mu_semaphore_p', 'nsync_mu_semaphore_p_with_deadline', 'nsync_mu_semaphore_v', 'futex (static)', 'nsync_time_cmp', 'nsync_time_now'],
        'bounds': {'threads': '1 waiter + 1..2 posters', 'waits': '1 (thorough: 2)', 'injected_early_returns': '<=2 (thorough <=3)', 'environment_posts_in_interference_runs': '<=2 (thorough <=3)',
                   'unwind': 'posts + faults + 3..4 with unwinding assertions'},
        'stubs': ['syscall(SYS_futex) = futex(2) model in harness/C12/futex_model.c / sem_timed.c', 'clock_gettime = arbitrary non-decreasing clock', 'ATM_* = SC model (plat/sc_atomic)'],
        'assumptions': ['one waiter per semaphore (it is per-thread)', 'sequentially consistent atomics', 'deadlines at or after the epoch here (earlier ones: C15)'],
        'outside': ['more than 2 posters / 2 successive waits', 'weak-memory reorderings', 'the timed wait under true thread interleaving (covered thread-modularly instead)'],
    }
