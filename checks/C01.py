"""C01: writer exclusion and reader sharing hold on every acquisition path."""
from lib import vf, e3
from checks import scen

E2FN = ['h_lock', 'h_rlock', 'h_trylock', 'h_rtrylock', 'h_unlock', 'h_runlock', 'h_unlock_nowake', 'h_mu_wait', 'h_cv_wait', 'h_cv_signal']
QUICK = ['e2_%s_U2_R1' % f for f in E2FN if f not in ('h_mu_wait', 'h_cv_wait')] + ['mu_w_r_R3', 'cv_plain_siginside_R3']
THOROUGH = ['e2_h_mu_wait_U2_R1', 'e2_h_cv_wait_U2_R1'] + ['e2_%s_U3_R1' % f for f in E2FN if f not in ('h_mu_wait', 'h_cv_wait')] + \
    ['mu_w_w_R4', 'mu_r_r_w_R3', 'cv_timed_siginside_R3', 'cv_reader_siginside_R3', 'cv_plain_sigreader_reader_R3', 'mw_ra_seta_R3', 'mw_btimed_setb_R3']


def scenarios(ctx):
    S = scen.all_scenarios()
    names = QUICK + (THOROUGH if ctx.tier == 'thorough' else [])
    return {n: S[n] for n in names}


def jobs(ctx):
    js = []
    for i, sc in enumerate(scenarios(ctx).values()):
        sc.witness = (i < 4) or ctx.tier == 'thorough'
        if sc.name in THOROUGH:
            sc.optional = True
        js += e3.make_jobs(ctx, sc)
    js.append(e3.smoke_job(ctx, scenarios(ctx)['mu_w_r_R3']))
    js.append(e3.tv_job(ctx))
    return js


def confirm(ctx, job, failure):
    return e3.confirm(ctx, job, failure, scenarios(ctx))


def info(ctx):
    from checks import e3check
    d = e3check.make('C01', QUICK, THOROUGH, EXPL, FUNCS, OUTSIDE)[3](ctx)
    return d


EXPL = ('(a) Thread-modular step check (harness/e3/e2_word.c, any number of threads, any history): one thread runs each real acquisition / release / wait / signal function while the environment '
        'replaces the mutex word before every atomic access by any value the guarantee allows the others (<= 3 changes per call) and wakes the thread when it sleeps; every write of the function to the word '
        'is checked against the guarantee = C01 on the word (writer bit added only to a free word by a thread holding nothing or by the converting last reader, removed only by the writer; reader count +-1 only '
        'without writer / by a reader; spinlock released only by its holder; no other lock-bit change, so a stale word written back is caught); each function must return holding exactly what its contract says. '
        'One context, all loops unrolled U times (U=2 quick, 3 thorough). '
        '(b) Bounded interleavings (E3) with shadow occupancy counters asserted after every acquire and before every release, including the implicit re-acquisition on return from cv / mu waits with deadlines.')
FUNCS = ['nsync_mu_lock', 'nsync_mu_rlock', 'nsync_mu_trylock', 'nsync_mu_rtrylock', 'nsync_mu_unlock', 'nsync_mu_runlock', 'nsync_mu_unlock_without_wakeup', 'nsync_mu_lock_slow_',
         'nsync_mu_unlock_slow_', 'nsync_mu_wait_with_deadline', 'mu_try_acquire_after_timeout_or_cancel', 'nsync_cv_wait_with_deadline_generic', 'nsync_cv_signal', 'nsync_cv_broadcast', 'wake_waiters']
OUTSIDE = ['nsync_wait_n re-acquisition (it calls the caller-supplied lock function: covered as nsync_mu_lock)', 'environment changes beyond 3 per call in the step check',
           'queue changes by the environment while the function does not hold the spinlock (the queue of <= 2 waiters is fixed per call)']
WORKERS = 5     # each query needs 2-10 GB (cbmc + kissat): bounded parallelism keeps the machine out of swap / the OOM killer
