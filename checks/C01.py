"""C01: writer exclusion and reader sharing hold on every acquisition path."""
from lib import vf, e3
from checks import scen

E2FN = ['h_lock', 'h_rlock', 'h_trylock', 'h_rtrylock', 'h_unlock', 'h_runlock', 'h_unlock_nowake', 'h_mu_wait', 'h_cv_wait', 'h_cv_signal']
QUICK = ['e2_%s_U2_R1' % f for f in E2FN]
THOROUGH = QUICK + ['e2_%s_U3_R1' % f for f in E2FN if f not in ('h_mu_wait', 'h_cv_wait')]


def scenarios(ctx):
    S = scen.all_scenarios()
    names = THOROUGH if ctx.tier == 'thorough' else QUICK
    return {n: S[n] for n in names}


def jobs(ctx):
    js = []
    for sc in scenarios(ctx).values():
        js += e3.make_jobs(ctx, sc)
    return js


def confirm(ctx, job, failure):
    return e3.confirm(ctx, job, failure, scenarios(ctx))


def info(ctx):
    return {'engine': 'E2+E3 seqcc', 'explanation': 'see DESIGN.md'}
