"""C19: allocation failure is reported, not crashed on, by the object constructors."""
from checks import e3check

QUICK = ['af_note_U2_R1', 'af_counter_U2_R1']
THOROUGH = ['af_note_U3_R1']
scenarios, jobs, confirm, info = e3check.make('C19', QUICK, THOROUGH,
    'harness/e3/alloc_fail.c, one thread, one context with every loop unrolled U times: a parent note (absent / fresh / with one child / already notified; solver-chosen) is built by the real '
    'nsync_note_new, then nsync_note_new(parent, deadline) runs with its allocation failing or not (solver-chosen; translator option malloc_fail_flag makes the pool allocator return NULL): on failure the '
    'result must be NULL and the parent\'s children list, notified flag, parent pointer, waiter list and mutex word must be unchanged (in particular not left locked); afterwards another child can be '
    'created and notifying the parent reaches all children - a parent left locked would make those calls block, which the scheduler oracle reports. nsync_counter_new likewise (all 2^32 initial values).',
    ['nsync_note_new', 'nsync_note_is_notified', 'nsync_note_notified_deadline_', 'nsync_note_notify', 'notify', 'note_notify_child', 'nsync_counter_new', 'nsync_counter_value'],
    ['deadline-expired children (the lazy-expiry notify inside nsync_note_notified_deadline_ is asserted unreachable: deadlines are in the future of the frozen clock)', 'nsync_malloc_ptr_ allocators'])
WORKERS = 5     # each query needs 2-10 GB (cbmc + kissat): bounded parallelism keeps the machine out of swap / the OOM killer
