"""C03: every hand-off is a happens-before edge under the declared memory orders."""
from checks import e3check

QUICK = ['hb_w_w_R3', 'hb_w_r_R3', 'hb_passive_w_w_R3', 'hb_once_spin_R3', 'hb_ctr_obs_R3']
THOROUGH = ['hb_w_w_all_R3', 'hb_w_r_all_R3', 'hb_w_w_R4', 'hb_w_try_R3', 'hb_w2_w_R3', 'hb_w_w_w_R3', 'hb_cv_R3', 'hb_mw_R3', 'hb_once_R3', 'hb_ctr_wait_R3', 'hb_note_obs_R3']
scenarios, jobs, confirm, info = e3check.make('C03', QUICK, THOROUGH,
    'harness/e3/hb_basic.c with the vector-clock runtime seqcc/rt/vf_hb.h. The atomics in the generated program carry the memory order of the LLVM IR instruction, i.e. the order the real '
    'platform/gcc_new/atomic.h requested at each call site (cmpxchg acquire/release/acq_rel/monotonic, load atomic acquire, store atomic release). Happens-before is computed only from those orders: a release store '
    'publishes the writer\'s clock on the location, relaxed stores cut the release sequence, read-modify-writes continue it, acquire reads join; failed CASes and relaxed reads learn nothing; the semaphore and the host CPU '
    'contribute nothing. Oracle: every plain access - client data written in critical sections / by the once function / before notify / before the zeroing counter_add, and nsync\'s own non-atomic fields (waiter queues, '
    'waiter records, note and counter fields) - must be ordered after the previous conflicting access by another thread; otherwise a data race is reported with the address.',
    ['every ATM_* call site of mu.c, common.c, cv.c, mu_wait.c, once.c, note.c, counter.c, wait.c reachable in the scenarios'],
    ['non-SC behaviours of the atomics themselves (the interleaving is sequentially consistent; only the happens-before derived from it is weakened)', 'platform/c11 and platform/c++11 atomic.h variants (same suffix mapping; not re-run)',
     'fences (nsync uses none)'])
WORKERS = 5     # each query needs 2-10 GB (cbmc + kissat): bounded parallelism keeps the machine out of swap / the OOM killer
