"""C04: condition-variable wake-ups are never lost and never swallowed by a timeout."""
from lib import vf, e3
from lib.e3 import Scenario

CV_UNITS = ['internal/mu.c', 'internal/common.c', 'internal/dll.c', 'internal/cv.c', 'internal/sem_wait.c', 'internal/note.c', 'internal/mu_wait.c',
            'internal/wait.c', 'internal/time_internal.c', 'platform/posix/src/time_rep.c']


def scenarios(ctx):
    th = ctx.tier == 'thorough'
    S = {}

    def add(name, threads, R, sem='counting', **kw):
        defs = ['VF_BINARY_SEM'] if sem == 'binary' else []
        sc = Scenario('%s_R%d_%s' % (name, R, sem), 'cv_basic.c', threads + ['final_check'], units=CV_UNITS, R=R, nfinal=1, defines=defs, **kw)
        S[sc.name] = sc
    add('plain_siginside', ['waiter_plain', 'signal_inside'], 3)
    add('plain_sigafter', ['waiter_plain', 'signal_after'], 3)
    add('timed_siginside', ['waiter_timed', 'signal_inside'], 3)
    add('timed_plain_siginside', ['waiter_timed', 'waiter_plain', 'signal_inside'], 3, timeout=2400)
    return S


def jobs(ctx):
    js = []
    for sc in scenarios(ctx).values():
        js += e3.make_jobs(ctx, sc)
    return js


def confirm(ctx, job, failure):
    return e3.confirm(ctx, job, failure, scenarios(ctx))


def info(ctx):
    return {'engine': 'E3 seqcc', 'explanation': 'see DESIGN.md', 'units': CV_UNITS}
