"""C11: nsync_wait_n reports a ready object, or a real timeout, and cleans up."""
from checks import e3check

QUICK = ['ns_cv_registration_R1', 'wn_cv_signaller_R2', 'wn_cv_sigafter_R2']
THOROUGH = ['wn_ctr_dec_R3', 'wn_cv_bcastafter_R2', 'wn_cvctr_signaller_R3', 'wn_cvctr_dec_R3', 'wn_cvctr_bcastafter_R3', 'wn_cvctr_plain_signaller_R3', 'wn_ctr_dec_R4', 'wn_cvctr_signaller_R4']
scenarios, jobs, confirm, info = e3check.make('C11', QUICK, THOROUGH, 'harness/e3/waitn_basic.c: nsync_wait_n over {note, counter} and {cv, note} with a solver-chosen deadline against a notifier / decrementer / signaller; the returned index must designate a ready object, or count with clock >= deadline; afterwards every object is made ready again: a registration left behind is a dead stack record and the waker touching it trips the use-after-return oracle.', ['nsync_wait_n', 'cv_enqueue', 'cv_dequeue', 'cv_ready_time', 'note_*', 'counter_*'], ['5 objects (heap bookkeeping path)', 'two concurrent nsync_wait_n callers'])
WORKERS = 5     # each query needs 2-10 GB (cbmc + kissat): bounded parallelism keeps the machine out of swap / the OOM killer
