"""C07: nsync_run_once runs its function exactly once and nobody returns early."""
from checks import e3check

QUICK = ['once_spin_argspin_R3', 'once_block_spin_R3']
THOROUGH = ['once_nested_block_R3', 'once_nested_R3', 'once_block_block_R3', 'once_spin_argspin_R4', 'once_block_spin_R4', 'once_arg_twice_R3', 'once_block_block_other_R3', 'once_block_block_R4']
scenarios, jobs, confirm, info = e3check.make('C07', QUICK, THOROUGH, 'harness/e3/once_basic.c: callers mix the four variants on one nsync_once (and a second once hashed to the same internal lock/cv slot); the init function counts runs, yields, then sets done; every caller asserts done==1 && runs==1 immediately after its call returns.', ['nsync_run_once', 'nsync_run_once_arg', 'nsync_run_once_spin', 'nsync_run_once_arg_spin', 'nsync_run_once_impl'], ['more than 3 callers'])
WORKERS = 5     # each query needs 2-10 GB (cbmc + kissat): bounded parallelism keeps the machine out of swap / the OOM killer
