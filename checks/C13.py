"""C13: releasing or waking never touches memory its owner may already have reclaimed."""
from checks import e3check

QUICK = ['ref_user_user_R4', 'ref_user_ruser_R3', 'wn_cv_sigafter_R2']
THOROUGH = ['wn_ctr_dec_R3', 'wn_cv_bcastafter_R2', 'ref_user_user_R5', 'ref_user_ruser_R4', 'ref_user_user_user_R3', 'wn_cvctr_signaller_R3', 'wn_cvctr_bcastafter_R3', 'wn_cvctr_dec_R3']
scenarios, jobs, confirm, info = e3check.make('C13', QUICK, THOROUGH, 'harness/e3/refcount.c: lock; last = (--refs == 0); unlock; if (last) free(object holding the mutex). The memory model keeps a liveness bit per heap/stack object and every access (also by a thread still inside nsync_mu_unlock) asserts it. nsync_wait_n scenarios: the on-stack waiter records die when the call returns.', ['nsync_mu_unlock', 'nsync_mu_unlock_slow_', 'nsync_mu_lock', 'nsync_wait_n', 'note_notify_child', 'nsync_counter_add', 'wake_waiters'], ['cancellable waits'])
WORKERS = 5     # each query needs 2-10 GB (cbmc + kissat): bounded parallelism keeps the machine out of swap / the OOM killer
