/* Verification variant of platform/<compiler>/atomic.h, placed in front of the include path.
 * Sequentially consistent model of the ATM_* operations as CBMC atomic sections.  It exists because
 * platform/gcc_new/atomic.h implements CAS with __atomic_compare_exchange_n (p, &o, ...): taking the address of a
 * local makes CBMC's thread encoding refuse the program ("pointer handling for concurrency is unsound").
 * The declared memory orders are NOT modelled here (C03 checks those on the LLVM IR of the real header). */
#ifndef VERIF_SC_ATOMIC_H_
#define VERIF_SC_ATOMIC_H_
#include "compiler.h"
#include "nsync_atomic.h"
NSYNC_CPP_START_
#ifdef VF_REPLAY          /* native replay of a sequential counterexample: single-threaded, sections are no-ops */
#define __CPROVER_atomic_begin() ((void) 0)
#define __CPROVER_atomic_end() ((void) 0)
#endif
#ifndef VF_ATM_HOOK
#define VF_ATM_HOOK(p) do { } while (0)
#endif
static __inline__ int vf_atm_cas_ (nsync_atomic_uint32_ *p, uint32_t o, uint32_t n) {
	int r;
	VF_ATM_HOOK (p);
	__CPROVER_atomic_begin ();
	r = (*NSYNC_ATOMIC_UINT32_PTR_ (p) == o);
	if (r) { *NSYNC_ATOMIC_UINT32_PTR_ (p) = n; }
	__CPROVER_atomic_end ();
	return (r);
}
static __inline__ uint32_t vf_atm_load_ (nsync_atomic_uint32_ *p) {
	uint32_t v;
	VF_ATM_HOOK (p);
	__CPROVER_atomic_begin ();
	v = *NSYNC_ATOMIC_UINT32_PTR_ (p);
	__CPROVER_atomic_end ();
	return (v);
}
static __inline__ void vf_atm_store_ (nsync_atomic_uint32_ *p, uint32_t v) {
	VF_ATM_HOOK (p);
	__CPROVER_atomic_begin ();
	*NSYNC_ATOMIC_UINT32_PTR_ (p) = v;
	__CPROVER_atomic_end ();
}
#define ATM_CAS(p,o,n)           vf_atm_cas_ ((nsync_atomic_uint32_ *) (p), (o), (n))
#define ATM_CAS_ACQ(p,o,n)       vf_atm_cas_ ((nsync_atomic_uint32_ *) (p), (o), (n))
#define ATM_CAS_REL(p,o,n)       vf_atm_cas_ ((nsync_atomic_uint32_ *) (p), (o), (n))
#define ATM_CAS_RELACQ(p,o,n)    vf_atm_cas_ ((nsync_atomic_uint32_ *) (p), (o), (n))
#define ATM_LOAD(p)              vf_atm_load_ ((nsync_atomic_uint32_ *) (p))
#define ATM_LOAD_ACQ(p)          vf_atm_load_ ((nsync_atomic_uint32_ *) (p))
#define ATM_STORE(p,v)           vf_atm_store_ ((nsync_atomic_uint32_ *) (p), (v))
#define ATM_STORE_REL(p,v)       vf_atm_store_ ((nsync_atomic_uint32_ *) (p), (v))
NSYNC_CPP_END_
#endif
