/* sc_atomic with an environment step before every atomic access (thread-modular checks). */
#ifndef VERIF_SC_ATOMIC_ENV_H_
#define VERIF_SC_ATOMIC_ENV_H_
void vf_env_step (void *p);
#define VF_ATM_HOOK(p) vf_env_step ((void *) (p))
#include "../sc_atomic/atomic.h"
#endif
