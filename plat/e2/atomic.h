/* Verification variant of atomic.h for the thread-modular checks (E2): every ATM_* operation is routed through
 * hooks in the harness, which (a) let the ENVIRONMENT (all other threads, any number of them) change the mutex word
 * before the operation in any way the guarantee allows them, and (b) check every write of the function under test
 * against the guarantee.  Memory orders are not modelled here. */
#ifndef VERIF_E2_ATOMIC_H_
#define VERIF_E2_ATOMIC_H_
#include "compiler.h"
#include "nsync_atomic.h"
NSYNC_CPP_START_
uint32_t vf_e2_load (nsync_atomic_uint32_ *p);
int vf_e2_cas (nsync_atomic_uint32_ *p, uint32_t o, uint32_t n);
void vf_e2_store (nsync_atomic_uint32_ *p, uint32_t v);
#define ATM_CAS(p,o,n)           vf_e2_cas ((nsync_atomic_uint32_ *) (p), (o), (n))
#define ATM_CAS_ACQ(p,o,n)       vf_e2_cas ((nsync_atomic_uint32_ *) (p), (o), (n))
#define ATM_CAS_REL(p,o,n)       vf_e2_cas ((nsync_atomic_uint32_ *) (p), (o), (n))
#define ATM_CAS_RELACQ(p,o,n)    vf_e2_cas ((nsync_atomic_uint32_ *) (p), (o), (n))
#define ATM_LOAD(p)              vf_e2_load ((nsync_atomic_uint32_ *) (p))
#define ATM_LOAD_ACQ(p)          vf_e2_load ((nsync_atomic_uint32_ *) (p))
#define ATM_STORE(p,v)           vf_e2_store ((nsync_atomic_uint32_ *) (p), (v))
#define ATM_STORE_REL(p,v)       vf_e2_store ((nsync_atomic_uint32_ *) (p), (v))
NSYNC_CPP_END_
#endif
