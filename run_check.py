#!/usr/bin/env python3
"""Entry point of every registered check:  run_check.py <ID> [--tier quick|thorough]

Exit 0: property held on everything decided (KNOWN-FINDING lines may be printed).
Exit 1: a violation not listed in known_findings.json, with a line
        VIOLATION property=<id> replay=<path>
Exit 2: the check itself is broken / inconclusive (witness unreachable, build failure,
        no verdict from a required query, counterexample that does not replay).
"""
import argparse, importlib, json, os, re, sys, time
sys.path.insert(0, os.path.dirname(os.path.abspath(__file__)))
from lib import vf


def main():
    ap = argparse.ArgumentParser()
    ap.add_argument('prop')
    ap.add_argument('--tier', default=os.environ.get('VERIF_TIER', 'quick'), choices=['quick', 'thorough'])
    ap.add_argument('--only', default=None, help='regex on job names (debugging)')
    a = ap.parse_args()
    seed = int(os.environ.get('VERIF_SEED', '0') or 0)
    ctx = vf.Ctx(a.prop, a.tier, seed)
    mod = importlib.import_module('checks.%s' % a.prop)
    try:
        jobs = mod.jobs(ctx)
    except Exception as ex:
        print('CHECK-ERROR property=%s cannot build: %s' % (a.prop, ex))
        vf.write_evidence(ctx, {'explanation': 'build failed: %s' % str(ex)[:500], 'obligations': 0, 'discharged': 0}, [], 0)
        return 2
    if a.only:
        jobs = [j for j in jobs if re.search(a.only, j.name)]
    vf.run_jobs(jobs, workers=getattr(mod, 'WORKERS_QUICK', None) if ctx.tier == 'quick' and hasattr(mod, 'WORKERS_QUICK') else getattr(mod, 'WORKERS', None))

    known = vf.load_known_findings()
    kf = [k for k in known.get('findings', []) if k['property'] == a.prop]
    violations, known_hits, broken, noverdict = [], [], [], []
    obligations = discharged = 0
    queries = []
    for j in jobs:
        q = {'job': j.name, 'expect': j.expect}
        q.update(j.meta)
        r = j.result
        if j.error or r is None:
            broken.append('%s: %s' % (j.name, (j.error or 'no result')[:300]))
            q['status'] = 'error'
            queries.append(q)
            continue
        if isinstance(r, dict):      # non-cbmc job: {'status','obligations','discharged','failures':[{'key','detail','replay'}],...}
            q.update({k: v for k, v in r.items() if k not in ('failures',)})
            st = r['status']
            obligations += r.get('obligations', 0)
            discharged += r.get('discharged', 0)
            fails = r.get('failures', [])
        else:
            q.update({'status': r.status, 'properties': r.nprops, 'wall_s': round(r.wall, 2), 'peak_rss_mb': r.rss_kb // 1024,
                      'cmd': r.cmd.replace(ctx.scratch, '$SCRATCH')})
            q.update(r.stats)
            st = r.status
            fails = None
        queries.append(q)
        if st in ('timeout', 'oom', 'error'):
            (noverdict if j.meta.get('optional') else broken).append('%s: %s %s' % (j.name, st, ' | '.join(getattr(r, 'messages', [])[-2:])[-400:] if st in ('error', 'oom') else ''))
            continue
        if j.expect == 'witness':
            if fails is None:
                wit = [f for f in r.failed if 'WITNESS' in f['description']]
                oth = [f for f in r.failed if 'WITNESS' not in f['description']]
                if not wit:
                    broken.append('%s: witness assertion unreachable (vacuous harness)' % j.name)
                q['witness_reached'] = bool(wit)
                q['other_failures_in_witness_twin'] = len(oth)
            continue
        if fails is None:
            nob = j.meta.get('oracle_sites') or r.nprops      # E3: one latched property stands for every oracle site of the generated program
            obligations += nob
            discharged += nob - len(r.failed)
            fails = []
            for f in r.failed[:2]:              # the first two failing properties of a query are re-executed natively; the others share the query's inputs
                c = mod.confirm(ctx, j, f)      # -> {'confirmed':bool,'key':str,'detail':str,'replay':path}
                fails.append(c)
            q['failed_properties'] = [f['description'][:120] for f in r.failed][:20]
        for c in fails:
            if not c.get('confirmed'):
                broken.append('%s: counterexample did not replay: %s' % (j.name, c.get('detail', '')[:300]))
                continue
            hit = None
            for k in kf:
                if re.search(k['match'], c['key']):
                    hit = k
            if hit:
                known_hits.append((hit, c))
            else:
                violations.append(c)

    info = mod.info(ctx) if hasattr(mod, 'info') else {}
    cov = {
        'explanation': info.get('explanation', ''),
        'engine': info.get('engine', ''),
        'repo_revision': vf.repo_rev(),
        'units_encoded': info.get('units', []),
        'functions_encoded': info.get('functions', []),
        'bounds': info.get('bounds', {}),
        'stubs': info.get('stubs', []),
        'outside_bounds': info.get('outside', []),
        'obligations': obligations,
        'discharged': discharged,
        'queries': queries,
        'queries_run': len(queries),
        'solver_time_s': round(sum(q.get('solver_s', 0) or 0 for q in queries), 2),
        'no_verdict': noverdict,
        'broken': broken,
        'known_findings_reproduced': [k['id'] for k, _ in known_hits],
        'samples': info.get('samples', [q['job'] for q in queries][:8]),
        'checker_cmd': 'python3 run_check.py %s --tier %s' % (a.prop, a.tier),
        'trusted_base': ['cbmc 6.11.0 (goto-cc front end, symbolic execution, bit-blasting, SAT back end)'] + info.get('trusted', []),
    }
    vf.write_evidence(ctx, cov, info.get('assumptions', []), len(violations))
    seen = set()
    for k, c in known_hits:
        if k['id'] not in seen:
            seen.add(k['id'])
            print('KNOWN-FINDING: property=%s %s [%s]' % (a.prop, k['what'], k['id']))
    for c in violations:
        print('VIOLATION property=%s replay=%s' % (a.prop, c.get('replay', '-')))
        print('  detail: %s' % c.get('detail', '')[:1000])
    for b in broken:
        print('CHECK-ERROR property=%s %s' % (a.prop, b))
    for b in noverdict:
        print('NO-VERDICT property=%s %s' % (a.prop, b))
    print('SUMMARY property=%s tier=%s queries=%d obligations=%d discharged=%d violations=%d known=%d broken=%d wall=%.1fs' % (
        a.prop, a.tier, len(queries), obligations, discharged, len(violations), len(seen), len(broken), time.time() - ctx.t0))
    if violations:
        return 1
    if broken:
        return 2
    return 0


if __name__ == '__main__':
    sys.exit(main())
