#!/bin/sh
# usage: tools/mutant.sh <prop> <patch-file | "sed:FILE:EXPR"> [run_check args...]
# Applies a change to a scratch copy of /repo (never to /repo itself) and runs the check against it.
set -e
P=$1; M=$2; shift 2
D=$(mktemp -d /var/tmp/nsync-mut.XXXXXX)
trap 'rm -rf "$D"' EXIT
rsync -a --exclude _build --exclude .git /repo/ "$D/"
case "$M" in
  sed:*) F=$(echo "$M" | cut -d: -f2); E=$(echo "$M" | cut -d: -f3-); sed -i "$E" "$D/$F"; (cd "$D" && diff -u /repo/$F $F | head -20 || true) ;;
  *) M=$(readlink -f "$M"); (cd "$D" && patch -p1 -s < "$M") ;;
esac
cd "$(dirname "$0")/.."
export VERIF_EVIDENCE_DIR="$D/evidence"
VERIF_REPO="$D" python3 run_check.py "$P" "$@" && echo "MUTANT-RESULT: exit 0 (not detected)" || echo "MUTANT-RESULT: exit $?"
