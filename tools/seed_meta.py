#!/usr/bin/env python3
"""Writes seeded/<id>/meta.json and seeded/README.md from the table below + confirm.log + detection results (seeded/detection.json)."""
import json, os, re
V = os.path.dirname(os.path.dirname(os.path.abspath(__file__)))
T = {
 'C01': ('internal/cv.c wake_waiters: the mutex spinlock taken for transferring cv waiters is released with a plain store of the stale word instead of the re-load + CAS loop',
         'a signaller holding the mutex in read mode (or not at all) while a third thread rlocks / runlocks between the spinlock CAS and the store: 3 threads, few-instruction window'),
 'C02': ('internal/mu.c nsync_mu_runlock: failed fast-path CAS retried in a local loop instead of going to nsync_mu_unlock_slow_',
         'two readers releasing concurrently with a writer queued: the second reader becomes the last one without noticing; lost wake-up'),
 'C03': ('internal/mu.c nsync_mu_unlock_slow_: ATM_CAS_RELACQ -> ATM_CAS_ACQ on the CAS that drops the lock and takes the spinlock',
         'no native effect on x86; a third thread acquiring between that CAS and the final release CAS gets no happens-before edge from the unlocker'),
 'C04': ('internal/cv.c nsync_cv_wait_with_deadline_generic: "outcome = sem_outcome" moved before the remove_count re-check',
         'deadline expires between the waker unlinking the waiter (or transferring it to the mutex queue) and clearing its flag: the wake-up is reported as ETIMEDOUT'),
 'C05': ('internal/mu_wait.c: condition re-evaluated only when woken normally, not after mu_try_acquire_after_timeout_or_cancel',
         'two conditional writers, the second times out while a holder makes both conditions true and the unlocker wakes only the first: returns ETIMEDOUT with the condition true'),
 'C06': ('internal/mu.c nsync_mu_unlock fast path no longer clears MU_ALL_FALSE',
         'reader-mode waiter woken (designated waker) + second writer section making another condition true via the fast path; the reader then skips the scan'),
 'C07': ('internal/once.c: a blocked loser leaves the wait loop when nsync_cv_wait_with_deadline returns 0, without re-checking the once word',
         'two nsync_once objects hashing to the same internal cv: completing the other one broadcasts and releases the loser early'),
 'C08': ('internal/note.c nsync_note_new: parent_time read before taking the parent lock',
         'notify(parent) completes between the read and the lock: the child is linked under an already notified parent and is never notified'),
 'C09': ('internal/note.c nsync_note_free: disconnecting++ moved after the trylock block',
         'free(child) in its slow path (parent lock busy) racing free(parent): parent freed while the child still uses it'),
 'C10': ('internal/counter.c nsync_counter_add: waiters detached under the lock but woken after unlocking',
         'a timed waiter timing out during the sweep unlinks itself from the detached ring: other waiters never woken / dead stack record written'),
 'C11': ('internal/cv.c cv_dequeue clears CV_NON_EMPTY whenever the caller was still queued, even if other waiters remain',
         'two waiters on one cv, one of them an nsync_wait_n caller that returns for another reason; later signals are dropped'),
 'C12': ('nsync_semaphore_futex.c: ETIMEDOUT from the futex accepted without the clock re-check when the timeout is absolute',
         'a premature ETIMEDOUT from the kernel wait (fault injection)'),
 'C13': ('internal/note.c note_dequeue returns without taking note_mu when the note is already notified',
         'a wait on a note ended by its deadline while the notifier is still walking the waiter list: notifier touches the dead stack record'),
 'C14': ('internal/common.h MU_RZERO_TO_ACQUIRE drops MU_LONG_WAIT',
         'writer victim alone in the queue with fresh readers arriving in every wake window'),
 'C15': ('nsync_semaphore_futex.c: the pre-epoch clamp tests (int) ts_buf.tv_sec < 0',
         'deadlines before the epoch whose low 32 bits are non-negative (e.g. -2^32 s): EINVAL -> ASSERT crash'),
 'C16': ('internal/debug.c emit_cv_state no longer re-reads the cv word when it takes the spinlock',
         'debug caller loading the cv word while another thread holds the cv spinlock: stale word with CV_SPINLOCK stored back, cv spinlock stuck'),
 'C17': ('internal/dll.c nsync_dll_make_first_in_list_ on an empty list returns e instead of e->prev when e->next == e->prev',
         'make_first(NULL, e) with e heading a ring of exactly two elements'),
 'C18': ('platform/posix/src/time_rep.c nsync_time_add: carry test >= changed to >',
         'nanosecond fields summing to exactly 1e9'),
 'C19': ('internal/note.c nsync_note_new takes the parent lock before malloc and returns NULL without releasing it',
         'allocation failure with a non-NULL parent'),
}
det = {}
p = os.path.join(V, 'seeded', 'detection.json')
if os.path.exists(p):
    det = json.load(open(p))
rows = []
for pid, (what, needs) in sorted(T.items()):
    d = os.path.join(V, 'seeded', pid)
    if not os.path.isdir(d):
        continue
    log = open(os.path.join(d, 'confirm.log')).read() if os.path.exists(os.path.join(d, 'confirm.log')) else ''
    m = re.search(r'RESULT .*', log)
    meta = {'property': pid, 'change': what, 'needs_to_manifest': needs,
            'confirmed_by': 'tools/confirm_seed.sh in a scratch worktree of /repo: build, ctest (26 tests), demo with the change, demo without it',
            'confirm_result': m.group(0) if m else 'n/a', 'files': sorted(os.listdir(d)),
            'detection': det.get(pid, {'status': 'not run yet'})}
    json.dump(meta, open(os.path.join(d, 'meta.json'), 'w'), indent=1)
    dd = det.get(pid, {})
    rows.append('| %s | %s | %s | %s |' % (pid, what, needs, dd.get('summary', 'not run yet')))
open(os.path.join(V, 'seeded', 'README.md'), 'w').write('# Seeded property-breaking changes\n\nEach was written by an independent sub-agent that saw only the property text and a scratch worktree; '
    'each was confirmed by `tools/confirm_seed.sh` (suite still 26/26 with the change; demonstration fails with it and passes without). '
    'None is ever committed to /repo; `tools/mutant.sh <ID> seeded/<ID>/patch.diff` runs a check against a scratch copy with the change.\n\n'
    '| property | change | needs | detection by the checks |\n|---|---|---|---|\n' + '\n'.join(rows) + '\n')
print('wrote', len(rows))
