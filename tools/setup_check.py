#!/usr/bin/env python3
"""MANIFEST.setup_cmd: nothing to build (the framework is Python + C harness sources); verify the tools are present."""
import shutil, sys
missing = [t for t in ['cbmc', 'goto-cc', 'clang-14', 'opt-14', 'llvm-link-14', 'gcc', 'cvc5', 'z3'] if not shutil.which(t)]
if missing:
    print('missing tools:', missing); sys.exit(1)
print('setup ok')
