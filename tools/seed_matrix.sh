#!/bin/bash
# usage: tools/seed_matrix.sh <seed-id> <check-id> [scenario,scenario,...]   -> appends a line to /var/tmp/t/seed_matrix.log
S=$1; P=$2; SC=$3
cd /verif
if [ -n "$SC" ]; then export VERIF_SCEN=$SC; P2=CX; else P2=$P; fi
OUT=$(tools/mutant.sh $P2 seeded/$S/patch.diff 2>&1)
RES=$(echo "$OUT" | grep "MUTANT-RESULT" | sed 's/MUTANT-RESULT: //')
DET=$(echo "$OUT" | grep -m1 "detail:" | cut -c1-260)
WALL=$(echo "$OUT" | grep SUMMARY | sed 's/.*wall=//')
echo "seed=$S check=$P scen=${SC:-quick-tier} result=[$RES] wall=$WALL $DET" >> /var/tmp/t/seed_matrix.log
