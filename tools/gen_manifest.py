#!/usr/bin/env python3
"""Regenerates MANIFEST.json from the table below (kept in one place so the manifest is always valid)."""
import json, os
V = os.path.dirname(os.path.dirname(os.path.abspath(__file__)))
ALL = ['C%02d' % i for i in range(1, 20)]

CHECKS = {
 'C17': dict(engine='E1', technique='bounded symbolic model checking (CBMC/SAT) of internal/dll.c: inductive step from an arbitrary symbolic list state',
             text='SAT-decided: for every pair of disjoint lists over <=5 (thorough: 6) elements and every operation with every admissible operand, the real dll.c '
                  'yields exactly the abstract sequence forwards and backwards; one step from an arbitrary valid state covers histories of any length over that many elements.',
             note='trusted: CBMC front end and bit-blasting, minisat; assumes documented preconditions of the list operations; bound = number of elements', ref='2 C17'),
 'C18': dict(engine='E1', technique='bounded symbolic model checking (CBMC with SAT and cvc5 bv-as-int back ends) of time_rep.c / time_internal.c and, through the LLVM IR route, of the C++ unit time_rep_timespec.cc against exact integer arithmetic',
             text='Solver-decided for all full-width operands (|sec|<=2^61 for add/sub, all int64 for cmp, all 2^32 ms/us): results normalized and equal to integer arithmetic on sec*1e9+nsec.',
             note='trusted: CBMC, minisat, cvc5 1.0 (--solve-bv-as-int=sum for the ms/us kernels); C unit via goto-cc, C++ unit via clang++ -> LLVM IR -> seqcc -> CBMC', ref='2 C18'),
}

E3NOTE = 'trusted: clang-14/opt-14 IR generation, the seqcc translator (its output is executed natively on every counterexample and must reproduce it), CBMC symbolic execution, kissat; sequentially consistent interleavings within the stated rounds/unrolling; modelled semaphore, clock and allocator'
def e3(text, tech='bounded symbolic model checking of sequentialised interleavings of the real code (seqcc -> CBMC -> kissat)', ref='1.3'):
    return dict(engine='E3', technique=tech, text=text, note=E3NOTE, ref=ref)
CHECKS.update({
 'C01': dict(engine='E2+E3', technique='thread-modular rely/guarantee step check of the mutex word on the real code (seqcc single-thread + symbolic environment, CBMC/kissat) plus bounded interleavings with occupancy counters',
             text='Solver-decided inductive step: every atomic write of every acquisition/release/wait/signal function to the mutex word satisfies the C01 guarantee from every word the environment (any number of threads) can produce; '
                  'functions return holding exactly their contract. Covers any thread count and history up to 3 interfering changes per call and loop unrolling 2 (3 thorough). Plus bounded-interleaving scenarios.',
             note=E3NOTE + '; the rely (what other threads may do to the word) is stated in harness/e3/e2_word.c', ref='1.2'),
 'C02': e3('For every schedule within the bounds (2-3 threads, 3-4 rounds) no thread stays asleep with nobody able to wake it (deadlock oracle), every thread can finish; trylock/rtrylock never sleep under arbitrary interference.'),
 'C03': e3('For every schedule within the bounds every plain access to client data (thorough: also every nsync non-atomic field) is ordered by happens-before computed only from the memory orders the real atomic.h requests (vector clocks, C++20 release sequences).',
           tech='bounded symbolic model checking with a vector-clock happens-before oracle over the declared memory orders taken from the LLVM IR (seqcc -> CBMC -> kissat)'),
 'C04': e3('Monitor-pattern scenarios whose only progress source is the wake-up: a lost or swallowed wake-up is a deadlock found by the solver over all schedules, deadlines and clock values within the bounds.'),
 'C05': dict(engine='E2+E3', technique='thread-modular step check (lock mode at return under arbitrary interference) plus bounded interleavings with solver-chosen deadline and clock', 
             text='nsync_mu_wait_with_deadline / nsync_cv_wait_with_deadline return holding the mutex in the mode of entry for every interference (E2); result codes agree with clock, condition and deadline on every bounded schedule (E3); a cv wait with a cancel note against notify of that note returns ECANCELED only when notified, holding the mutex, and the cancellation is never lost (E3, contended paths of the note mutex pruned).', note=E3NOTE, ref='1.2'),
 'C06': e3('Bounded interleavings of conditional waiters (same / equivalent / different conditions, reader and writer mode) with setters: a waiter left asleep is a deadlock; conditions are evaluated only under exclusive hold (callback assertion and E2 guarantee).'),
 'C07': e3('Bounded interleavings of mixed run_once variants: run count == 1 and completion flag checked immediately after every return (thorough: a loser woken by the completion of a second once that shares the internal lock/cv slot).'),
 'C10': e3('Bounded interleavings of a thread doing both decrements with a waiter / timed waiter (thorough: two decrementers, reader, passive waiter record + timed waiter): returned values, wait results against value and virtual clock, waiters released at zero (deadlock oracle, liveness of stack records); additional scenarios with two unrolled loop iterations in which the contended mutex paths are pruned.'),
 'C11': e3('Sequential registration protocol on the cv through the waitable interface (a dequeued record leaves the others reachable by a signal, nothing stays registered), and bounded interleavings of nsync_wait_n{cv} holding the mutex, solver-chosen deadline, against a signaller inside / after the critical section: returned index vs signal and clock; leftover registrations exposed by signalling again (use-after-return oracle).'),
 'C13': e3('Reference-count pattern with free of the object holding the mutex (2 users, writer/reader mix), and nsync_wait_n{cv} with a deadline against a signal issued after the critical section: every access asserts liveness of the heap / stack object in the memory model (this check found defect F3); timed nsync_note_wait against notify and timed counter wait against the decrement to zero (on-stack waiter records; contended mutex paths pruned); UNSAT over all bounded schedules on the repaired tree.'),
 'C14': dict(engine='E2', technique='thread-modular step check on nsync_mu_lock/rlock/trylock/rtrylock/lock_slow with ghost sleep counter; retry loop unrolled past LONG_WAIT_THRESHOLD in the thorough tier',
             text='Solver-decided obligations (1) never-waited threads cannot acquire past MU_LONG_WAIT, (2) MU_LONG_WAIT is set at the 30th fruitless wake-up and cleared only by its setter on acquiring, (3) woken threads re-queue at the front. The bound on the number of sleeps derived from them is a paper argument.',
             note=E3NOTE, ref='2 C14'),
 'C16': dict(engine='E2+E3', technique='thread-modular guarantee check on the debug-state functions (mutex and cv word), bounded interleavings with a debug caller, and sequential CBMC on the real emit_c for every buffer size',
             text='Concurrency half only: the debug-state functions change no lock bit and release the spinlocks they take without disturbing other bits, for every interference; C01/C02 oracles with a debug caller in bounded interleavings. Buffer half: the real emit_init/emit_c (through which every output byte goes) for every buffer size 0..80 and every text up to 90 characters: in bounds, NUL-terminated, "..." when truncated; the varargs formatter above emit_c is not encoded (see DESIGN.md).',
             note=E3NOTE, ref='2 C16'),
 'C19': e3('Single-thread symbolic execution (one context, loops unrolled) of nsync_note_new / nsync_counter_new with the allocation failing or not, parent shape and deadline kind solver-chosen: NULL result, parent unchanged, unlocked and usable.',
           tech='bounded symbolic execution of the real constructors with a failing allocator (seqcc -> CBMC)'),
 'C12': dict(engine='E1', technique='CBMC thread encoding + sequential CBMC under symbolic interference on platform/linux/src/nsync_semaphore_futex.c with a modelled futex(2)',
             text='All interleavings of 1 waiter + 1..2 posters over the real P/V code with up to 2 injected early futex returns: no lost post, no invented post; timed wait under interference: ETIMEDOUT only at/after the deadline, success consumes exactly one post.',
             note='trusted: CBMC, minisat; SC atomics model (plat/sc_atomic); futex model in harness/C12', ref='2 C12'),
 'C15': dict(engine='E1', technique='sequential CBMC on nsync_mu_semaphore_p_with_deadline for every timespec deadline against the futex(2) contract; counterexamples re-run through the public API of the rebuilt real library',
             text='For all 2^64 seconds values (incl. before the epoch), nsec < 1e9 and no_deadline: no ASSERT/crash, termination within the bound, expired deadline => ETIMEDOUT, no early timeout.',
             note='trusted: CBMC; the layers above the semaphore pass the deadline through unchanged (read, not encoded)', ref='2 C15'),
})
CHECKS.update({
 'C08': e3('Sequential half: expiry = minimum of the deadlines to the root for every tree of depth 3 with solver-chosen deadlines, notification reaches descendants and leaves ancestors/siblings alone (single-thread symbolic execution of the real note.c). '
           'Concurrent half under a stated cut: two-thread bounded interleavings (nsync_note_new under a parent against notify of that parent; poller against notifier) in which the contended paths of the note mutexes are pruned - schedules where a thread blocks on a held note mutex are outside the claim.',
           tech='bounded symbolic execution of the real note code on symbolic trees (seqcc single thread -> CBMC) + bounded interleavings by sequentialisation with pruned mutex contention'),
 'C09': e3('Sequential half: adoption of the children of a freed note and no access to freed notes in a single-thread free/notify sequence. Concurrent half under a stated cut: two-thread bounded interleavings free(parent) / free(child), free(child) / free(grandchild) (thorough: free / notify) with object liveness tracking; '
           'the contended paths of the note mutexes are pruned (failing try-locks are explored, blocking on a held note mutex is outside the claim).',
           tech='bounded symbolic execution of nsync_note_free / notify sequences with object liveness tracking (seqcc -> CBMC): single thread, and two threads by sequentialisation with pruned mutex contention'),
})
NA = {}
NA_REASON = 'check not built yet (work in progress; see DESIGN.md section 5 for the order of work)'

def main():
    checks = []
    for pid in ALL:
        if pid not in CHECKS:
            continue
        c = CHECKS[pid]
        checks.append({
            'property_id': pid,
            'quick_cmd': 'python3 run_check.py %s --tier quick' % pid,
            'thorough_cmd': 'python3 run_check.py %s --tier thorough' % pid,
            'evidence_file': 'evidence/%s.json' % pid,
            'replay_cmd_template': 'python3 tools/replay.py {path}',
            'engine': c['engine'],
            'level_claimed': {'category': c.get('category', 'other'), 'text': c['text'], 'design_ref': 'DESIGN.md section ' + c['ref']},
            'level_note': c['note'],
            'technique': c['technique'],
        })
    m = {
        'version': 1,
        'setup_cmd': 'python3 tools/setup_check.py',
        'hooks': {'guard': 'none', 'enable': 'no source hooks: verification variants of platform headers are put in front of the include path by the checks',
                  'baseline_off_cmd': 'cmake -G Ninja -S /repo -B /repo/_build >/dev/null && cmake --build /repo/_build >/dev/null && ctest --test-dir /repo/_build -j8 --timeout 900',
                  'source_commits': [], 'add_only': True},
        'engines': [
            {'name': 'E1', 'path': 'lib/e1.py', 'serves_properties': [p for p in ALL if CHECKS.get(p, {}).get('engine', '').startswith('E1')],
             'kind_free_text': 'CBMC (goto-cc of the real C translation units + harness with symbolic inputs), native replay of counterexamples'},
            {'name': 'E2', 'path': 'harness/e3/e2_word.c', 'serves_properties': [p for p in ALL if 'E2' in CHECKS.get(p, {}).get('engine', '')],
             'kind_free_text': 'thread-modular rely/guarantee step check: one thread of real code (seqcc translation) + symbolic environment on the mutex word'},
            {'name': 'E3', 'path': 'seqcc/', 'serves_properties': [p for p in ALL if 'E3' in CHECKS.get(p, {}).get('engine', '')],
             'kind_free_text': 'seqcc: LLVM IR of the real units -> predicated resumable C over a scalar-cell memory model; round-robin scheduler with solver-chosen pre-emption points; CBMC + kissat; native replay'},
        ],
        'checks': checks,
        'notes': 'Every check rebuilds from /repo (or $VERIF_REPO) into a scratch dir under /var/tmp that is removed at exit. Exit codes: 0 held / 1 VIOLATION / 2 check broken or inconclusive.',
        'not_applicable': [{'property_id': p, 'reason': NA.get(p, NA_REASON)} for p in ALL if p not in CHECKS],
    }
    json.dump(m, open(os.path.join(V, 'MANIFEST.json'), 'w'), indent=1)
    print('MANIFEST.json: %d checks, %d not applicable' % (len(checks), len(m['not_applicable'])))

main()
