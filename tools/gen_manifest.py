#!/usr/bin/env python3
"""Regenerates MANIFEST.json from the table below (kept in one place so the manifest is always valid)."""
import json, os
V = os.path.dirname(os.path.dirname(os.path.abspath(__file__)))
ALL = ['C%02d' % i for i in range(1, 20)]

CHECKS = {
 'C17': dict(engine='E1', technique='bounded symbolic model checking (CBMC/SAT) of internal/dll.c: inductive step from an arbitrary symbolic list state',
             text='SAT-decided: for every pair of disjoint lists over <=5 (thorough: 6) elements and every operation with every admissible operand, the real dll.c '
                  'yields exactly the abstract sequence forwards and backwards; one step from an arbitrary valid state covers histories of any length over that many elements.',
             note='trusted: CBMC front end and bit-blasting, minisat; assumes documented preconditions of the list operations; bound = number of elements', ref='2 C17'),
 'C18': dict(engine='E1', technique='bounded symbolic model checking (CBMC with SAT and cvc5 bv-as-int back ends) of time_rep.c/time_internal.c against exact integer arithmetic',
             text='Solver-decided for all full-width operands (|sec|<=2^61 for add/sub, all int64 for cmp, all 2^32 ms/us): results normalized and equal to integer arithmetic on sec*1e9+nsec.',
             note='trusted: CBMC, minisat, cvc5 1.0 (--solve-bv-as-int=sum for the ms/us kernels); C build only until the IR route covers the C++ unit', ref='2 C18'),
}
NA_REASON = 'check not built yet (work in progress; see DESIGN.md section 5 for the order of work)'
NA = {}

def main():
    checks = []
    for pid in ALL:
        if pid not in CHECKS:
            continue
        c = CHECKS[pid]
        checks.append({
            'property_id': pid,
            'quick_cmd': 'python3 run_check.py %s --tier quick' % pid,
            'thorough_cmd': 'python3 run_check.py %s --tier thorough' % pid,
            'evidence_file': 'evidence/%s.json' % pid,
            'replay_cmd_template': 'python3 tools/replay.py {path}',
            'engine': c['engine'],
            'level_claimed': {'category': c.get('category', 'other'), 'text': c['text'], 'design_ref': 'DESIGN.md section ' + c['ref']},
            'level_note': c['note'],
            'technique': c['technique'],
        })
    m = {
        'version': 1,
        'setup_cmd': 'python3 tools/setup_check.py',
        'hooks': {'guard': 'none', 'enable': 'no source hooks: verification variants of platform headers are put in front of the include path by the checks',
                  'baseline_off_cmd': 'cmake -G Ninja -S /repo -B /repo/_build >/dev/null && cmake --build /repo/_build >/dev/null && ctest --test-dir /repo/_build -j8 --timeout 900',
                  'source_commits': [], 'add_only': True},
        'engines': [
            {'name': 'E1', 'path': 'lib/e1.py', 'serves_properties': [p for p in ALL if CHECKS.get(p, {}).get('engine', '').startswith('E1')],
             'kind_free_text': 'CBMC (goto-cc of the real C translation units + harness with symbolic inputs), native replay of counterexamples'},
        ],
        'checks': checks,
        'notes': 'Every check rebuilds from /repo (or $VERIF_REPO) into a scratch dir under /var/tmp that is removed at exit. Exit codes: 0 held / 1 VIOLATION / 2 check broken or inconclusive.',
        'not_applicable': [{'property_id': p, 'reason': NA.get(p, NA_REASON)} for p in ALL if p not in CHECKS],
    }
    json.dump(m, open(os.path.join(V, 'MANIFEST.json'), 'w'), indent=1)
    print('MANIFEST.json: %d checks, %d not applicable' % (len(checks), len(m['not_applicable'])))

main()
