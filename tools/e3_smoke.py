#!/usr/bin/env python3
"""Translator smoke test: generate every catalogue scenario (or those matching argv[1]) and run it natively under a few
non-preemptive schedules (each thread runs until it blocks)."""
import sys, os, re, random
sys.path.insert(0, os.path.dirname(os.path.dirname(os.path.abspath(__file__))))
from lib import vf, e3
from checks import scen
ctx = vf.Ctx('SMOKE', 'quick')
pat = sys.argv[1] if len(sys.argv) > 1 else '.'
seen = set()
for name, sc in scen.all_scenarios().items():
    base = re.sub(r'_R\d+(_bin)?$', '', name)
    if not re.search(pat, name) or base in seen:
        continue
    seen.add(base)
    try:
        out_c, st = e3.gen_c(ctx, sc)
    except Exception as ex:
        print('%-40s GEN-ERROR %s: %s' % (name, type(ex).__name__, str(ex)[:300]))
        continue
    res = []
    sc.R = 40
    for seed in range(4):
        random.seed(seed)
        nd = [65535 if seed == 0 else random.choice([65535, 65535, 0, random.randint(1, 80)]) for _ in range(3000)]
        if seed == 1:
            nd = [random.randint(0, 255) for _ in range(3000)]
        o, d = e3.native_run(ctx, sc, nd, name + str(seed), env_extra={'VF_AUTOSKIP': '1'})
        m = re.search(r'VF-(FAIL|END|ASSUME-FAILED)[^\n]*', d)
        res.append('%s:%s' % (o, m.group(0)[:70] if m else d[-80:].replace('\n', ' ')))
    print('%-40s lines=%s cells=%s %s' % (name, st.get('lines'), st.get('cells'), ' | '.join(res)))
    for w in st.get('warnings', [])[:3]:
        print('      warn:', w)
