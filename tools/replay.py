#!/usr/bin/env python3
"""Re-execute a saved counterexample natively against /repo's current sources: tools/replay.py replays/<file>.json"""
import json, os, sys
sys.path.insert(0, os.path.dirname(os.path.dirname(os.path.abspath(__file__))))
from lib import vf, e1
d = json.load(open(sys.argv[1]))
ctx = vf.Ctx(d['property'], 'quick')
if d.get('kind') == 'seqcc':
    from lib import e3
    sys.exit(e3.replay_file(ctx, d))
outcome, detail = e1.native_replay(ctx, d['meta'], d['inputs'], 'manual')
print('native outcome:', outcome)
print(detail)
sys.exit(1 if outcome in ('assert', 'crash', 'sanitizer', 'timeout') else 0)
