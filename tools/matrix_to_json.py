#!/usr/bin/env python3
"""Turns the log of tools/seed_matrix.sh runs into seeded/detection.json (input of tools/seed_meta.py)."""
import re, json, os, sys
V = os.path.dirname(os.path.dirname(os.path.abspath(__file__)))
log = sys.argv[1] if len(sys.argv) > 1 else '/var/tmp/t/seed_matrix.log'
det = {}
for ln in open(log):
    m = re.match(r'seed=(\S+) check=(\S+) scen=(\S+) result=\[(.*?)\] wall=(\S*) ?(.*)', ln.strip())
    if not m:
        continue
    seed, chk, scen, res, wall, detail = m.groups()
    caught = res.startswith('exit 1')
    d = det.setdefault(seed, {'runs': []})
    d['runs'].append({'check': chk, 'scenarios': scen, 'result': res, 'wall': wall, 'detail': detail.replace('detail: ', '')[:240]})
for seed, d in det.items():
    c = [r for r in d['runs'] if r['result'].startswith('exit 1')]
    q = [r for r in c if r['scenarios'] == 'quick-tier']
    if q:
        d['summary'] = 'CAUGHT by the quick tier of %s (%s): %s' % (q[0]['check'], q[0]['wall'], re.sub(r'^[^:]*: ', '', q[0]['detail'])[:150])
    elif c:
        d['summary'] = 'CAUGHT by %s scenario %s (%s): %s' % (c[0]['check'], c[0]['scenarios'], c[0]['wall'], re.sub(r'^[^:]*: ', '', c[0]['detail'])[:150])
    else:
        d['summary'] = 'MISSED by: ' + ', '.join('%s/%s (%s)' % (r['check'], r['scenarios'], r['result']) for r in d['runs'])
json.dump(det, open(os.path.join(V, 'seeded', 'detection.json'), 'w'), indent=1)
print(json.dumps({k: v['summary'] for k, v in det.items()}, indent=1))
