#!/bin/bash
# usage: tools/confirm_seed.sh <ID> <worktree> [name]   -- confirms a seeded change in the agent's scratch worktree and stores it under seeded/<name>
ID=$1; W=$2; NAME=${3:-$ID}
OUT=/verif/seeded/$NAME; mkdir -p $OUT
cd $W || exit 1
LOG=$OUT/confirm.log; : > $LOG
git diff -- internal platform public > $OUT/patch.diff
[ -s $OUT/patch.diff ] || { echo "no change in worktree" | tee -a $LOG; exit 1; }
cp -r demo/* $OUT/ 2>/dev/null; rm -f $OUT/demo $OUT/*.o $OUT/a.out; find $OUT -type f -size +200k -delete
git diff -- internal platform public > $OUT/patch.diff
echo "== with change: build + suite" >> $LOG
cmake -G Ninja -B _build -DCMAKE_BUILD_TYPE=RelWithDebInfo >/dev/null 2>&1; cmake --build _build >/dev/null 2>&1 || { echo "BUILD FAILED" | tee -a $LOG; exit 1; }
ctest --test-dir _build -j8 --timeout 900 2>&1 | tail -3 >> $LOG
SUITE=$(grep -c "100% tests passed" $LOG)
echo "== with change: demo" >> $LOG
timeout 600 bash demo/run.sh >> $LOG 2>&1; RC_WITH=$?
echo "demo rc with change: $RC_WITH" >> $LOG
git apply -R $OUT/patch.diff
cmake --build _build >/dev/null 2>&1
echo "== without change: demo" >> $LOG
timeout 600 bash demo/run.sh >> $LOG 2>&1; RC_WITHOUT=$?
echo "demo rc without change: $RC_WITHOUT" >> $LOG
git apply $OUT/patch.diff; cmake --build _build >/dev/null 2>&1
# does the patch apply to /repo as it is now?
git -C /repo apply --check $OUT/patch.diff 2>>$LOG && APPLIES=true || APPLIES=false
echo "RESULT id=$ID name=$NAME suite_pass=$SUITE demo_with=$RC_WITH demo_without=$RC_WITHOUT applies_to_repo_head=$APPLIES" | tee -a $LOG
