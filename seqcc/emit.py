"""Flat, predicated, resumable emission of one harness thread (see seqcc.py)."""
import sys, os, re, json, collections
from llparse import parse_module
from seqcc import Gen, X, san, ctype_bits, ORD
from cfg import FnCFG, Loop

IGNORED_CALLS = ('llvm.dbg.', 'llvm.lifetime.', 'llvm.assume', 'llvm.experimental.noalias', 'llvm.donothing')


class Inst:
    """one in-place instantiation of an IR function"""
    def __init__(self, T, f, name):
        self.T, self.f, self.name = T, f, name
        self.regs = {}       # reg -> [X...] leaves (C lvalues)
        self.org = {}        # reg -> origin (static)
        self.cvals = {}      # reg -> [X const...] for registers that are compile-time constants
        self.types = {}
        for (t, n) in f.params:
            self.types[n] = t


class ThreadEmitter:
    def __init__(self, G, tid, entry, label):
        self.G, self.tid, self.entry, self.label = G, tid, entry, label
        self.lines = []
        self.flags = []
        self.resume = {}          # k -> flag
        self.ninst = 0
        self.stack = []
        self.cfgs = {}
        self.open_flag = None
        self.ntmp = 0
        self.stack_objs = []
        self.setflags = set()
        self.suppress = False

    # ---------------------------------------------------------------- helpers
    def flag(self):
        f = 'e%d' % (len(self.flags) + 1)
        self.flags.append(f)
        return f

    def new_resume(self):
        k = len(self.resume) + 1
        f = self.flag()
        self.resume[k] = f
        self.mark(f)
        return k, f

    def open(self, f):
        assert self.open_flag is None
        self.open_flag = f
        self.suppress = f not in self.setflags      # nothing ever enables this segment: dead code, not emitted
        if not self.suppress:
            self.lines.append(' if (%s) {' % f)

    def close(self):
        if self.open_flag is not None:
            if not self.suppress:
                self.lines.append(' }')
            self.open_flag = None
            self.suppress = False

    def emit(self, s):
        if not self.suppress:
            self.lines.append('  ' + s)

    def mark(self, f):
        if not self.suppress:
            self.setflags.add(f)
        return f

    def tmp(self):
        self.ntmp += 1
        return 't%d_%d' % (self.tid, self.ntmp)

    def cfg_of(self, f):
        if f.name not in self.cfgs:
            self.cfgs[f.name] = FnCFG(f)
        return self.cfgs[f.name]

    def reg_decl(self, inst, reg, ty):
        G = self.G
        lv = []
        for i, bits in enumerate(G.leaves(ty)):
            nm = 'R%d_%s_%s%s' % (self.tid, inst.name, san(reg), ('_%d' % i) if i else '')
            G.statics.append('static %s %s;' % (ctype_bits(bits), nm))
            lv.append(nm)
        inst.regs[reg] = lv
        inst.types[reg] = ty
        return lv

    # ---------------------------------------------------------------- operands
    def val(self, inst, v, ty):
        """operand -> list of X (leaves)"""
        G = self.G
        k = v[0]
        if k == 'reg':
            if v[1] in inst.cvals:
                return inst.cvals[v[1]]
            lv = inst.regs.get(v[1])
            if lv is None:
                raise KeyError('undefined reg %%%s in %s' % (v[1], inst.f.name))
            org = inst.org.get(v[1])
            return [X(n, None, org if i == 0 else None) for i, n in enumerate(lv)]
        lvs = G.leaves(ty)
        if k in ('zero', 'undef', 'null'):
            return [X.const(0, b) for b in lvs]
        if k == 'agg':
            out = []
            for (et, ev) in v[1]:
                out += self.val(inst, ev, et)
            return out
        return [G.const_val(v, ty, self.tid)]

    def val1(self, inst, v, ty):
        r = self.val(inst, v, ty)
        assert len(r) == 1, (v, ty)
        return r[0]

    def setreg(self, inst, reg, ty, xs, org=None):
        if xs and all(x.c is not None for x in xs):
            inst.cvals[reg] = [X(x.s, x.c, org if (i == 0 and org is not None) else x.org) for i, x in enumerate(xs)]
            return
        lv = inst.regs.get(reg) or self.reg_decl(inst, reg, ty)
        for n, x in zip(lv, xs):
            self.emit('%s = %s;' % (n, x.s))
        if org is not None:
            inst.org[reg] = org
        elif len(xs) == 1 and xs[0].org is not None:
            inst.org[reg] = xs[0].org

    # ---------------------------------------------------------------- memory access
    def alive_chk(self, o):
        return ('VF_ALIVE(%s, %d); ' % (o.alive_name(), o.id)) if o.kind in ('heap', 'stack') else ''

    def gen_load(self, x, bits, dst, what='load'):
        G = self.G
        size = max(1, (bits + 7) // 8)
        cands = G.candidates(x, size, self.tid)
        if x.c == 0:
            self.emit('VF_NULL_ACCESS("%s through NULL");' % what)
            return
        if not cands:
            self.emit('VF_BAD_ACCESS(%s, "%s: no candidate cell");' % (x.s, what))
            G.warnings.append('no candidate for %s of %d bytes at %s (org %s) in thread %d' % (what, size, x.s, x.org, self.tid))
            return
        if x.c is not None:
            o, off = cands[0]
            self.emit('%s%s = %s;' % (self.alive_chk(o), dst, o.cname(off)))
            return
        a = self.tmp()
        s = '{ uint64_t %s = %s; ' % (a, x.s)
        for i, (o, off) in enumerate(cands):
            s += '%sif (%s == %dUL) { %s%s = %s; } ' % ('else ' if i else '', a, o.base + off, self.alive_chk(o), dst, o.cname(off))
        s += 'else { VF_BAD_ACCESS(%s, "%s"); } }' % (a, what)
        self.emit(s)

    def gen_store(self, x, bits, src, what='store'):
        G = self.G
        size = max(1, (bits + 7) // 8)
        if x.c == 0:
            self.emit('VF_NULL_ACCESS("%s through NULL (nsync ASSERT)");' % what)
            return
        cands = [(o, off) for (o, off) in G.candidates(x, size, self.tid) if not o.immutable]
        if not cands:
            self.emit('VF_BAD_ACCESS(%s, "%s: no candidate cell");' % (x.s, what))
            G.warnings.append('no candidate for %s of %d bytes at %s (org %s) in thread %d' % (what, size, x.s, x.org, self.tid))
            return
        if x.c is not None:
            o, off = cands[0]
            self.emit('%s%s = %s;%s' % (self.alive_chk(o), o.cname(off), src, ' VF_WROTE();' if o.kind != 'stack' else ''))
            return
        a = self.tmp()
        s = '{ uint64_t %s = %s; ' % (a, x.s)
        for i, (o, off) in enumerate(cands):
            s += '%sif (%s == %dUL) { %s%s = %s; } ' % ('else ' if i else '', a, o.base + off, self.alive_chk(o), o.cname(off), src)
        s += 'else { VF_BAD_ACCESS(%s, "%s"); }%s }' % (a, what, ' VF_WROTE();' if any(o.kind != 'stack' for o, _ in cands) else '')
        self.emit(s)

    def gen_memset(self, x, byte, n):
        """memset(x, byte, n) with constant n: every candidate object whose [off, off+n) lies inside"""
        G = self.G
        targets = []
        if x.c is not None:
            for o in G.objs:
                if o.base <= x.c < o.base + max(o.size, 1):
                    targets.append((o, x.c - o.base))
        elif x.org is not None:
            sname, offs = x.org
            for o in G.objs:
                for b in G.L.occurrences(o.ty, sname):
                    for d in offs:
                        targets.append((o, b + d))
        else:
            for o in G.objs:
                if o.size == n and o.cells:
                    targets.append((o, 0))
        if not targets:
            self.emit('VF_BAD_ACCESS(%s, "memset: no candidate object");' % x.s)
            return
        a = self.tmp()
        s = '{ uint64_t %s = %s; ' % (a, x.s)
        first = True
        for (o, off) in targets:
            cs = [(co, cs_) for (co, cs_, ck) in o.cells if off <= co and co + cs_ <= off + n]
            if not cs:
                continue
            body = ''.join('%s = %s; ' % (o.cname(co), '0' if byte == 0 else ('(%s)0x%s' % (ctype_bits(cs_ * 8), ('%02x' % byte) * cs_))) for co, cs_ in cs)
            s += '%sif (%s == %dUL) { %s%s} ' % ('' if first else 'else ', a, o.base + off, self.alive_chk(o), body)
            first = False
        s += 'else { VF_BAD_ACCESS(%s, "memset"); } VF_WROTE(); }' % a
        self.emit(s)

    def gen_memcpy(self, xd, xs, n):
        """memcpy with constant n between typed origins: cell-wise via generic loads/stores of 8/4/.. bytes is not possible
        without layout; use the destination candidates' layout"""
        G = self.G
        dt = []
        if xd.c is not None:
            for o in G.objs:
                if o.base <= xd.c < o.base + max(o.size, 1):
                    dt.append((o, xd.c - o.base))
        elif xd.org is not None:
            for o in G.objs:
                for b in G.L.occurrences(o.ty, xd.org[0]):
                    for d in xd.org[1]:
                        dt.append((o, b + d))
        if not dt:
            self.emit('VF_BAD_ACCESS(%s, "memcpy: no candidate destination");' % xd.s)
            return
        # layout of the copied range from the first destination candidate
        o0, off0 = dt[0]
        rng = [(co - off0, cs_) for (co, cs_, ck) in o0.cells if off0 <= co and co + cs_ <= off0 + n]
        for (rel, cs_) in rng:
            t = self.tmp()
            self.emit('%s %s = 0;' % (ctype_bits(cs_ * 8), t))
            sx = X('(%s + %dUL)' % (xs.s, rel), (xs.c + rel) if xs.c is not None else None,
                   (xs.org[0], frozenset(q + rel for q in xs.org[1])) if xs.org else None)
            dx = X('(%s + %dUL)' % (xd.s, rel), (xd.c + rel) if xd.c is not None else None,
                   (xd.org[0], frozenset(q + rel for q in xd.org[1])) if xd.org else None)
            self.gen_load(sx, cs_ * 8, t, 'memcpy-load')
            self.gen_store(dx, cs_ * 8, t, 'memcpy-store')

    # ---------------------------------------------------------------- visible points
    def vp(self, kind, obj='0'):
        k, rf = self.new_resume()
        self.emit('VF_VP(%d, %s, %s, %s);' % (k, kind, obj, rf))
        self.close()
        self.open(rf)

    # ---------------------------------------------------------------- instantiate a function
    def instantiate(self, f, args, entry_flag, on_ret, depth_note=''):
        """args: list (per param) of list of X. on_ret(list of X) -> C statements executed at each ret."""
        G = self.G
        self.ninst += 1
        inst = Inst(self, f, 'i%d' % self.ninst)
        C = self.cfg_of(f)
        body = self.lines
        body.append('  /* >>> %s as %s */' % (f.name, inst.name))
        if self.suppress:
            return
        pa = ''
        for (t, pn), a in zip(f.params, args):
            inst.types[pn] = t
            if a and all(x.c is not None for x in a):
                inst.cvals[pn] = list(a)          # constant argument: propagated into the instance
                continue
            lv = self.reg_decl(inst, pn, t)
            for n, x in zip(lv, a):
                pa += '%s = %s; ' % (n, x.s)
            if len(a) == 1 and a[0].org is not None:
                inst.org[pn] = a[0].org
        # phi nodes whose incoming values are all the same literal constant are constants
        for b in f.blocks:
            for I in b.ins:
                if I['op'] != 'phi':
                    break
                vs = [v for v, _ in I['inc']]
                if all(v[0] in ('int', 'null', 'zero') for v in vs):
                    cs = [self.G.const_val(v, I['ty'], self.tid) for v in vs]
                    if len(set(c.c for c in cs)) == 1:
                        inst.cvals[I['res']] = [cs[0]]
        # pre-declare every register (phi nodes refer forward)
        for b in f.blocks:
            for I in b.ins:
                if I['res'] is not None and I['op'] != 'alloca':
                    ty = self.result_type(inst, I)
                    if ty is not None and I['res'] not in inst.regs:
                        self.reg_decl(inst, I['res'], ty)
        self.bflag = getattr(self, 'bflag', {})
        flags = {}

        def bf(n, path):
            key = (n, path)
            if key not in flags:
                flags[key] = self.flag()
            return flags[key]
        K = {}
        for L in C.loops.values():
            K[L.header] = self.unroll_of(f.name, L)
        allocas = []
        hdr_resume = {}

        body.append(' if (%s) { %s%s = 1; }' % (entry_flag, pa, self.mark(bf(C.entry, ()))))

        def edge(src, dst, path):
            cp = self.phi_copies(inst, f, src, dst)
            ns, nd = C.nest[src], C.nest[dst]
            Ld = C.loops.get(dst)
            if Ld is not None and Ld in ns:       # back-edge
                d = ns.index(Ld)
                cur = path[d]
                if cur + 1 < K[dst]:
                    return '%s%s = 1;' % (cp, self.mark(bf(dst, path[:d] + (cur + 1,))))
                k = hdr_resume[(dst, path[:d] + (0,))]
                return '%sVF_BACKEDGE(%d);' % (cp, k)
            common = 0
            while common < len(ns) and common < len(nd) and ns[common] is nd[common]:
                common += 1
            np_ = path[:common] + (0,) * (len(nd) - common)
            return '%s%s = 1;' % (cp, self.mark(bf(dst, np_)))

        def ret_code(xs):
            s = ''
            for o in allocas:
                s += '%s = 0; ' % o.alive_name()
            return s + on_ret(xs)

        def emit_block(bn, path):
            b = C.blocks[bn]
            if flags.get((bn, path)) not in self.setflags:
                return                       # no emitted edge leads here: dead under the constants of this instance
            if bn in C.loops and path and path[-1] == 0:
                k, rf = self.new_resume()
                hdr_resume[(bn, path)] = k
                body.append(' if (%s) { %s = 1; }' % (rf, bf(bn, path)))
            self.open(bf(bn, path))
            for I in b.ins:
                op = I['op']
                if op == 'br':
                    if 'dest' in I:
                        self.emit('{ %s }' % edge(bn, I['dest'], path))
                    else:
                        c = self.val1(inst, I['cond'], ('int', 1))
                        if c.c is not None:
                            self.emit('{ %s }' % edge(bn, I['t'] if (c.c & 1) else I['f'], path))
                        else:
                            self.emit('if (%s) { %s } else { %s }' % (c.s, edge(bn, I['t'], path), edge(bn, I['f'], path)))
                elif op == 'switch':
                    v = self.val1(inst, I['val'], I['ty'])
                    if v.c is not None:
                        tgt = I['default']
                        for (cv, d) in I['cases']:
                            if self.val1(inst, cv, I['ty']).c == v.c:
                                tgt = d
                        self.emit('{ %s }' % edge(bn, tgt, path))
                        continue
                    s = ''
                    for (cv, d) in I['cases']:
                        s += 'if (%s == %s) { %s } else ' % (v.s, self.val1(inst, cv, I['ty']).s, edge(bn, d, path))
                    self.emit(s + '{ %s }' % edge(bn, I['default'], path))
                elif op == 'ret':
                    self.emit(ret_code(None if I['val'] is None else self.val(inst, I['val'], I['ty'])))
                elif op == 'unreachable':
                    self.emit('VF_UNREACHABLE();')
                elif op == 'alloca':
                    o = G.new_obj('%s.%s@%d/%s' % (f.name, I['res'], self.tid, inst.name), I['ty'] if I['n'] is None else ('arr', self.const_n(inst, I), I['ty']), 'stack', thread=self.tid)
                    allocas.append(o)
                    self.reg_decl(inst, I['res'], ('ptr', I['ty']))
                    self.emit('%s = 1; %s = %dUL;' % (o.alive_name(), inst.regs[I['res']][0], o.base))
                    # cells of a fresh stack object are unspecified; zero them so that replays are deterministic
                    self.emit(''.join('%s = 0; ' % o.cname(co) for (co, cs_, ck) in o.cells))
                else:
                    self.emit_instr(inst, f, I)
            self.close()

        def emit_items(items, path):
            for (kind, it) in items:
                if kind == 'b':
                    emit_block(it, path)
                else:
                    for i in range(K[it.header]):
                        emit_items(C.region_order(it), path + (i,))
        emit_items(C.region_order(None), ())
        body.append('  /* <<< %s */' % f.name)

    def const_n(self, inst, I):
        x = self.val1(inst, I['n'], ('int', 64))
        if x.c is None:
            raise NotImplementedError('variable-length alloca')
        return x.c

    def unroll_of(self, fname, L):
        u = self.G.cfg.get('unroll', {})
        key = '%s#%d' % (fname, L.idx)
        if key in u:
            return u[key]
        if fname in u:
            return u[fname]
        return u.get('*', 1)

    def phi_copies(self, inst, f, src, dst):
        blk = self.cfg_of(f).blocks[dst]
        cps = []
        for I in blk.ins:
            if I['op'] != 'phi':
                break
            if I['res'] in inst.cvals:
                continue
            for (v, bn) in I['inc']:
                if bn == src:
                    xs = self.val(inst, v, I['ty'])
                    cps.append((I['res'], xs, I['ty']))
        if not cps:
            return ''
        s = '{ '
        tmps = []
        for (r, xs, ty) in cps:
            for i, (x, bits) in enumerate(zip(xs, self.G.leaves(ty))):
                t = self.tmp()
                s += '%s %s = %s; ' % (ctype_bits(bits), t, x.s)
                tmps.append((inst.regs[r][i], t))
        for (lv, t) in tmps:
            s += '%s = %s; ' % (lv, t)
        # origin of a phi: common origin of all incomings
        return s + '} '

    # ---------------------------------------------------------------- types of results
    def result_type(self, inst, I):
        op = I['op']
        if op in ('add', 'sub', 'mul', 'udiv', 'sdiv', 'urem', 'srem', 'and', 'or', 'xor', 'shl', 'lshr', 'ashr', 'select', 'phi', 'freeze', 'load'):
            return I['ty']
        if op == 'icmp':
            return ('int', 1)
        if op in ('bitcast', 'ptrtoint', 'inttoptr', 'trunc', 'zext', 'sext'):
            return I['ty']
        if op == 'getelementptr':
            return ('ptr', ('int', 8))
        if op == 'cmpxchg':
            return ('struct', (I['ty'], ('int', 1)), False)
        if op == 'atomicrmw':
            return I['ty']
        if op == 'call':
            return None if I['ty'] == ('void',) else I['ty']
        if op == 'extractvalue':
            cur = I['aty']
            for ix in I['ix']:
                r = self.G.L.resolve(cur)
                cur = r[1][ix] if r[0] == 'struct' else r[2]
            return cur
        if op == 'insertvalue':
            return I['aty']
        if op == 'alloca':
            return ('ptr', I['ty'])
        return None

    def leaf_index(self, aty, ixs):
        """index of the first leaf of element path ixs inside aggregate type aty, and its type"""
        G = self.G
        cur = aty
        base = 0
        for ix in ixs:
            r = G.L.resolve(cur)
            if r[0] == 'struct':
                for j in range(ix):
                    base += len(G.leaves(r[1][j]))
                cur = r[1][ix]
            else:
                base += ix * len(G.leaves(r[2]))
                cur = r[2]
        return base, cur

    # ---------------------------------------------------------------- ordinary instructions
    def emit_instr(self, inst, f, I):
        G = self.G
        op = I['op']
        r = I['res']
        if op == 'phi':
            if r in inst.cvals:
                return
            # origin: keep if all register incomings agree
            orgs = set()
            for (v, bn) in I['inc']:
                if v[0] == 'reg':
                    orgs.add(inst.org.get(v[1]))
                elif v[0] in ('null', 'zero', 'undef'):
                    continue
                else:
                    orgs.add(None)
            if len(orgs) == 1 and None not in orgs:
                inst.org[r] = orgs.pop()
            return
        if op in ('add', 'sub', 'mul', 'udiv', 'sdiv', 'urem', 'srem', 'and', 'or', 'xor', 'shl', 'lshr', 'ashr'):
            bits = G.leaves(I['ty'])[0]
            a = self.val1(inst, I['a'], I['ty']); b = self.val1(inst, I['b'], I['ty'])
            self.setreg(inst, r, I['ty'], [self.binop(op, bits, a, b)])
            return
        if op == 'icmp':
            bits = G.leaves(I['ty'])[0]
            a = self.val1(inst, I['a'], I['ty']); b = self.val1(inst, I['b'], I['ty'])
            pr = I['pred']
            if a.c is not None and b.c is not None:
                def sg(v):
                    return v - (1 << bits) if v >= (1 << (bits - 1)) else v
                av, bv = (sg(a.c), sg(b.c)) if pr[0] == 's' else (a.c, b.c)
                res = {'eq': av == bv, 'ne': av != bv, 'ugt': av > bv, 'uge': av >= bv, 'ult': av < bv, 'ule': av <= bv,
                       'sgt': av > bv, 'sge': av >= bv, 'slt': av < bv, 'sle': av <= bv}[pr]
                self.setreg(inst, r, ('int', 1), [X.const(int(res), 8)])
                return
            cm = {'eq': '==', 'ne': '!=', 'ugt': '>', 'uge': '>=', 'ult': '<', 'ule': '<=', 'sgt': '>', 'sge': '>=', 'slt': '<', 'sle': '<='}[pr]
            if pr[0] == 's':
                st = 'int%d_t' % (8 if bits <= 8 else 16 if bits <= 16 else 32 if bits <= 32 else 64)
                sa, sb = self.sx(a.s, bits), self.sx(b.s, bits)
                e = '((%s)%s %s (%s)%s)' % (st, sa, cm, st, sb)
            else:
                e = '(%s %s %s)' % (a.s, cm, b.s)
            self.setreg(inst, r, ('int', 1), [X('(uint8_t)' + e)])
            return
        if op == 'select':
            c = self.val1(inst, I['c'], ('int', 1))
            a = self.val(inst, I['a'], I['ty']); b = self.val(inst, I['b'], I['ty'])
            org = a[0].org if (a and b and a[0].org == b[0].org) else None
            if c.c is not None:
                self.setreg(inst, r, I['ty'], a if (c.c & 1) else b)
                return
            self.setreg(inst, r, I['ty'], [X('(%s ? %s : %s)' % (c.s, x.s, y.s)) for x, y in zip(a, b)], org)
            return
        if op == 'freeze':
            self.setreg(inst, r, I['ty'], self.val(inst, I['val'], I['ty']))
            return
        if op in ('bitcast', 'inttoptr', 'ptrtoint'):
            x = self.val1(inst, I['val'], I['fty'])
            org = x.org
            # a cast to a pointer to a named struct re-types an unknown pointer
            t = I['ty']
            if op == 'bitcast' and org is None and t[0] == 'ptr' and t[1][0] == 'named':
                org = (t[1][1], frozenset([0]))
            bits = G.leaves(I['ty'])[0]
            e = x.s if bits == 64 else '(%s)%s' % (ctype_bits(bits), x.s)
            self.setreg(inst, r, I['ty'], [X(e, x.c, org)], org)
            if org is None:
                inst.org.pop(r, None)
            return
        if op == 'zext':
            x = self.val1(inst, I['val'], I['fty'])
            fb = G.leaves(I['fty'])[0]
            if x.c is not None:
                self.setreg(inst, r, I['ty'], [X.const(x.c & ((1 << fb) - 1), G.leaves(I['ty'])[0])])
                return
            e = '(%s)%s' % (ctype_bits(G.leaves(I['ty'])[0]), ('(%s & 1)' % x.s) if fb == 1 else x.s)
            self.setreg(inst, r, I['ty'], [X(e)])
            return
        if op == 'sext':
            x = self.val1(inst, I['val'], I['fty'])
            fb = G.leaves(I['fty'])[0]; tb = G.leaves(I['ty'])[0]
            tt = ctype_bits(tb)
            if fb == 1:
                e = '(%s)((%s & 1) ? ~(%s)0 : 0)' % (tt, x.s, tt)
            else:
                e = '(%s)(int%d_t)(int%d_t)%s' % (tt, 8 if tb <= 8 else 16 if tb <= 16 else 32 if tb <= 32 else 64, 8 if fb <= 8 else 16 if fb <= 16 else 32 if fb <= 32 else 64, self.sx(x.s, fb))
            self.setreg(inst, r, I['ty'], [X(e)])
            return
        if op == 'trunc':
            x = self.val1(inst, I['val'], I['fty'])
            tb = G.leaves(I['ty'])[0]
            if x.c is not None:
                self.setreg(inst, r, I['ty'], [X.const(x.c, tb)])
                return
            e = '(%s)%s' % (ctype_bits(tb), x.s)
            if tb not in (8, 16, 32, 64):
                e = '(%s & %dU)' % (e, (1 << tb) - 1)
            self.setreg(inst, r, I['ty'], [X(e)])
            return
        if op == 'getelementptr':
            self.emit_gep(inst, I)
            return
        if op == 'extractvalue':
            xs = self.val(inst, I['agg'], I['aty'])
            base, ty = self.leaf_index(I['aty'], I['ix'])
            n = len(G.leaves(ty))
            self.setreg(inst, r, ty, xs[base:base + n])
            return
        if op == 'insertvalue':
            xs = list(self.val(inst, I['agg'], I['aty']))
            base, ty = self.leaf_index(I['aty'], I['ix'])
            vs = self.val(inst, I['val'], I['ety'])
            xs[base:base + len(vs)] = vs
            # copy through temporaries (source and destination registers may alias)
            self.setreg(inst, r, I['aty'], xs)
            return
        if op == 'load':
            if I.get('atomic'):
                return self.emit_atomic(inst, I)
            x = self.val1(inst, I['ptr'], I['pty'])
            lvs = G.leaves(I['ty'])
            if len(lvs) != 1:
                raise NotImplementedError('aggregate load in %s' % f.name)
            if I.get('volatile') and x.c == 0:
                self.emit('VF_NULL_ACCESS("volatile load from NULL");')
                return
            if x.c is not None:
                cs = G.candidates(x, max(1, (lvs[0] + 7) // 8), self.tid)
                if cs and cs[0][0].immutable:
                    o, off = cs[0]
                    t = I['ty']
                    org = (t[1][1], frozenset([0])) if (t[0] == 'ptr' and t[1][0] == 'named') else None
                    self.setreg(inst, r, I['ty'], [X.const(o.initc.get(off, 0) or 0, lvs[0])], org)
                    return
            self.gen_load(x, lvs[0], inst.regs[r][0])
            t = I['ty']
            if t[0] == 'ptr' and t[1][0] == 'named':
                inst.org[r] = (t[1][1], frozenset([0]))
            self.race_hook(inst, I, x, False)
            return
        if op == 'store':
            if I.get('atomic'):
                return self.emit_atomic(inst, I)
            x = self.val1(inst, I['ptr'], I['pty'])
            vs = self.val(inst, I['val'], I['ty'])
            if len(vs) != 1:
                raise NotImplementedError('aggregate store in %s' % f.name)
            self.gen_store(x, G.leaves(I['ty'])[0], vs[0].s)
            self.race_hook(inst, I, x, True)
            return
        if op in ('cmpxchg', 'atomicrmw', 'fence'):
            return self.emit_atomic(inst, I)
        if op == 'call':
            return self.emit_call(inst, f, I)
        raise NotImplementedError('instruction %s in %s' % (op, f.name))

    def race_hook(self, inst, I, x, is_write):
        """happens-before race check on plain accesses to shared (non-stack) cells (runtime: -DVF_HB)"""
        if not self.G.cfg.get('hb'):
            return
        G = self.G
        only = G.cfg.get('hb_objects')       # if given: race-check only plain accesses to these (client data) objects, at constant addresses
        if x.c is not None:
            for o in G.objs:
                if o.base <= x.c < o.base + max(o.size, 1):
                    if o.kind == 'stack' or o.immutable or o.kind == 'tls':
                        return
                    if only is not None and o.name not in only:
                        return
        elif only is not None:
            return
        self.emit('%s(%s);' % ('VF_PLAIN_WR' if is_write else 'VF_PLAIN_RD', x.s))

    def sx(self, e, bits):
        if bits in (8, 16, 32, 64):
            return e
        sh = 64 - bits
        return '((int64_t)((uint64_t)%s << %d) >> %d)' % (e, sh, sh)

    def binop(self, op, bits, a, b):
        ct = ctype_bits(bits)
        m = (1 << bits) - 1
        if a.c is not None and b.c is not None and op in ('add', 'sub', 'and', 'or', 'xor', 'mul'):
            v = {'add': a.c + b.c, 'sub': a.c - b.c, 'and': a.c & b.c, 'or': a.c | b.c, 'xor': a.c ^ b.c, 'mul': a.c * b.c}[op]
            return X.const(v, bits)
        if op == 'and' and ((a.c == 0) or (b.c == 0)):
            return X.const(0, bits)
        if op == 'and' and (a.c == m or b.c == m):
            return b if a.c == m else a
        if op == 'or' and ((a.c == m) or (b.c == m)):
            return X.const(m, bits)
        if op in ('or', 'xor', 'add') and (a.c == 0 or b.c == 0):
            return b if a.c == 0 else a
        if op == 'mul' and (a.c == 0 or b.c == 0):
            return X.const(0, bits)
        if a.c is not None and b.c is not None and op in ('udiv', 'urem') and b.c != 0:
            return X.const(a.c // b.c if op == 'udiv' else a.c % b.c, bits)
        if a.c is not None and b.c is not None and op in ('shl', 'lshr') and b.c < bits:
            return X.const((a.c << b.c) if op == 'shl' else (a.c >> b.c), bits)
        A, B = a.s, b.s
        st = 'int%d_t' % (8 if bits <= 8 else 16 if bits <= 16 else 32 if bits <= 32 else 64)
        if op in ('add', 'sub', 'mul', 'and', 'or', 'xor'):
            o = {'add': '+', 'sub': '-', 'mul': '*', 'and': '&', 'or': '|', 'xor': '^'}[op]
            e = '(%s)((%s)%s %s (%s)%s)' % (ct, 'uint64_t' if bits > 32 else 'uint32_t', A, o, 'uint64_t' if bits > 32 else 'uint32_t', B)
        elif op in ('udiv', 'urem'):
            e = '(%s)(%s %s %s)' % (ct, A, '/' if op == 'udiv' else '%', B)
        elif op in ('sdiv', 'srem'):
            e = '(%s)((%s)%s %s (%s)%s)' % (ct, st, self.sx(A, bits), '/' if op == 'sdiv' else '%', st, self.sx(B, bits))
        elif op == 'shl':
            e = '(%s)((%s)%s << (%s & %d))' % (ct, 'uint64_t' if bits > 32 else 'uint32_t', A, B, 63 if bits > 32 else 31)
        elif op == 'lshr':
            e = '(%s)(%s >> (%s & %d))' % (ct, A, B, 63 if bits > 32 else 31)
        elif op == 'ashr':
            e = '(%s)((%s)%s >> (%s & %d))' % (ct, st, self.sx(A, bits), B, 63 if bits > 32 else 31)
        else:
            raise NotImplementedError(op)
        if bits not in (8, 16, 32, 64):
            e = '(%s & %dU)' % (e, m)
        x = X(e)
        # pointer +- constant keeps a shifted origin only through GEP; integer arithmetic drops it
        return x

    def emit_gep(self, inst, I):
        G = self.G
        base = self.val1(inst, I['ptr'], I['pty'])
        cur = I['bty']
        off_c = 0
        off_e = []
        sym_offsets = None     # set of possible constant offsets contributed by symbolic array indices
        top = cur
        for n, (it, iv) in enumerate(I['idx']):
            ix = self.val1(inst, iv, it)
            if n == 0:
                es = G.L.size_align(cur)[0]
            else:
                rr = G.L.resolve(cur)
                if rr[0] == 'struct':
                    o, ft = G.L.field_offset(rr, ix.c)
                    off_c += o
                    cur = ft
                    continue
                es = G.L.size_align(rr[2])[0]
                cnt = rr[1]
                cur = rr[2]
            if ix.c is not None:
                v = ix.c
                ib = G.leaves(it)[0]
                if v >= 1 << (ib - 1):
                    v -= 1 << ib
                off_c += v * es
            else:
                ib = G.leaves(it)[0]
                off_e.append('(uint64_t)((int64_t)%s * %d)' % (self.sx('(int%d_t)%s' % (64 if ib > 32 else 32, ix.s), 64) if ib in (32, 64) else ix.s, es))
                if n > 0:
                    sym_offsets = [k * es for k in range(cnt)] if sym_offsets is None else [a + k * es for a in sym_offsets for k in range(cnt)]
                else:
                    sym_offsets = 'unknown'
        # origin
        org = None
        if base.c is None:
            borg = base.org
            if borg is None and top[0] == 'named':
                borg = (top[1], frozenset([0]))
            if borg is not None and sym_offsets != 'unknown':
                adds = [0] if sym_offsets is None else sym_offsets
                offs = frozenset(q + off_c + a for q in borg[1] for a in adds)
                if all(q >= 0 for q in offs) and len(offs) <= 64:
                    org = (borg[0], offs)
        if base.c is not None and not off_e:
            x = X.const(base.c + off_c)
        else:
            parts = [base.s]
            if off_c:
                parts.append('%dUL' % (off_c & ((1 << 64) - 1)))
            parts += off_e
            x = X('(uint64_t)(' + ' + '.join(parts) + ')', None, org)
        self.setreg(inst, I['res'], ('ptr', ('int', 8)), [x], org)
        if org is None:
            inst.org.pop(I['res'], None)

    # ---------------------------------------------------------------- atomics (visible)
    def emit_atomic(self, inst, I):
        G = self.G
        op = I['op']
        if op == 'fence':
            self.vp('VF_K_ATOMIC')
            self.emit('VF_FENCE(%d);' % ORD[I['ord']])
            return
        x = self.val1(inst, I['ptr'], I['pty'])
        bits = G.leaves(I['ty'])[0]
        self.vp('VF_K_ATOMIC', x.s)
        loc = self.atomic_loc(x, bits)
        hk = G.cfg.get('atomic_hooks')
        if hk and not getattr(self, 'in_hook', False):
            # thread-modular mode: the harness function hk['pre'] (the environment) runs before every atomic access
            self.call_harness_fn(inst, hk['pre'], [[x]])
        if op == 'load':
            self.gen_load(x, bits, inst.regs[I['res']][0], 'atomic load')
            self.emit('VF_ATOMIC_LOAD_HOOK(%s, %d);' % (loc, ORD[I['ord']]))
        elif op == 'store':
            v = self.val1(inst, I['val'], I['ty'])
            if hk and not getattr(self, 'in_hook', False):
                old = self.tmp()
                self.emit('%s %s = 0;' % (ctype_bits(bits), old))
                self.gen_load(x, bits, old, 'atomic store (old value for the guarantee check)')
                self.call_harness_fn(inst, hk['write'], [[x], [X(old)], [v]])
            self.emit('VF_ATOMIC_STORE_HOOK(%s, %d);' % (loc, ORD[I['ord']]))
            self.gen_store(x, bits, v.s, 'atomic store')
        elif op == 'cmpxchg':
            old = self.tmp()
            self.emit('%s %s = 0;' % (ctype_bits(bits), old))
            self.gen_load(x, bits, old, 'cmpxchg')
            cmpv = self.val1(inst, I['cmp'], I['ty']); newv = self.val1(inst, I['new'], I['ty'])
            lv = inst.regs[I['res']]
            self.emit('%s = %s; %s = (uint8_t)(%s == %s);' % (lv[0], old, lv[1], old, cmpv.s))
            if hk and not getattr(self, 'in_hook', False):
                # guarantee check on the successful write: hk['write'](addr, old, new), executed only when the CAS succeeds
                self.call_harness_fn(inst, hk['write'], [[x], [X(old)], [newv]], cond=lv[1])
            self.emit('if (%s) { VF_ATOMIC_RMW_HOOK(%s, %d);' % (lv[1], loc, ORD[I['ord']]))
            self.gen_store(x, bits, newv.s, 'cmpxchg')
            self.emit('} else { VF_ATOMIC_LOAD_HOOK(%s, %d); }' % (loc, ORD[I['ford']]))
        elif op == 'atomicrmw':
            old = inst.regs[I['res']][0]
            self.gen_load(x, bits, old, 'atomicrmw')
            v = self.val1(inst, I['val'], I['ty'])
            o = {'add': '+', 'sub': '-', 'and': '&', 'or': '|', 'xor': '^'}.get(I['rmw'])
            nv = v.s if I['rmw'] == 'xchg' else '(%s)(%s %s %s)' % (ctype_bits(bits), old, o, v.s)
            self.emit('VF_ATOMIC_RMW_HOOK(%s, %d);' % (loc, ORD[I['ord']]))
            self.gen_store(x, bits, nv, 'atomicrmw')

    def call_harness_fn(self, inst, name, args, cond=None):
        """instantiate harness function `name` in place (its own atomics are not hooked again); splits the current segment"""
        g = self.G.M.funcs[name]
        if self.suppress:
            return
        # temporaries declared in this segment do not survive the split: pass them through static registers
        args2 = []
        for a in args:
            row = []
            for x in a:
                if x.c is None and re.match(r'^t\d+_\d+$', x.s):
                    nm = 'H%d_%d' % (self.tid, self.ntmp); self.ntmp += 1
                    self.G.statics.append('static uint64_t %s;' % nm)
                    self.emit('%s = %s;' % (nm, x.s))
                    row.append(X(nm, None, x.org))
                else:
                    row.append(x)
            args2.append(row)
        cf = self.mark(self.flag()); after = self.flag()
        if cond is None:
            self.emit('%s = 1;' % cf)
        else:
            self.emit('if (%s) { %s = 1; } else { %s = 1; }' % (cond, cf, self.mark(after)))
        self.close()
        self.in_hook = True
        self.stack.append(name)
        self.instantiate(g, args2, cf, lambda xs, after=after: '%s = 1;' % self.mark(after))
        self.stack.pop()
        self.in_hook = False
        self.open(after)

    def atomic_loc(self, x, bits):
        """expression identifying the atomic location for the happens-before runtime (its address)"""
        return x.s

    # ---------------------------------------------------------------- calls
    def emit_call(self, inst, f, I):
        G = self.G
        M = G.M
        if self.suppress:
            return
        c = I['callee']
        res = I['res']
        if c[0] == 'glob':
            n = c[1]
            if any(n.startswith(p) for p in IGNORED_CALLS):
                return
            args = [self.val(inst, av, at) for at, av in I['args']]
            if self.special_call(inst, f, I, n, args):
                return
            g = M.funcs.get(n)
            if g is None or not g.defined:
                raise NotImplementedError('call to undefined external %s from %s' % (n, f.name))
            import fnmatch as _fn
            if any(_fn.fnmatch(n, pat) for pat in G.cfg.get('prune_fns', [])) or [f.name, n] in G.cfg.get('prune_calls', []):
                # schedules that reach this function are outside the bound of the scenario: pruned (assumed away), NOT asserted
                self.emit('VF_REC_BOUND();')
                return
            if self.excluded(n) or [f.name, n] in G.cfg.get('exclude_calls', []):
                self.emit('VF_BAD_ACCESS(0, "call to a function excluded from this scenario (asserted unreachable): %s");' % n)
                self.emit('VF_ASSUME(0);')
                return
            cands = [(None, g)]
            fp = None
        else:
            fp = self.val1(inst, c, ('ptr', ('int', 8)))
            args = [self.val(inst, av, at) for at, av in I['args']]
            def norm(t):
                # exact type up to named-struct identity; i8* and void* coincide
                return t
            want = (norm(I['ty']), tuple(norm(t) for t, _ in I['args']))
            cands = []
            for a in sorted(G.addr_taken):
                g = M.funcs.get(a)
                if g is None or not g.defined:
                    continue
                if (norm(g.ret), tuple(norm(t) for t, _ in g.params)) == want and not self.excluded(a):
                    cands.append((G.fnid[a], g))
            if fp.c is not None:
                # callee known at translation time: taken by identity even if it is called through a cast to another pointer type
                cands = [(G.fnid[a], M.funcs[a]) for a in sorted(G.addr_taken) if G.fnid.get(a) == fp.c and a in M.funcs and M.funcs[a].defined and not self.excluded(a)]
                if len(cands) == 1:
                    cands = [(None, cands[0][1])]
                    fp = None
            if not cands:
                self.emit('VF_BAD_ACCESS(%s, "indirect call: no candidate function");' % (fp.s if fp else '0'))
                return
        after = self.flag()
        cflags = []
        for (fid, g) in cands:
            cf = self.flag()
            cflags.append(cf)
            self.mark(cf)
            if fid is None:
                self.emit('%s = 1;' % cf)
            else:
                self.emit('if (%s == %dUL) %s = 1;' % (fp.s, fid, cf))
        if fp is not None:
            self.emit('if (%s) { VF_BAD_ACCESS(%s, "indirect call to unknown function"); }' % (' && '.join('%s != %dUL' % (fp.s, fid) for fid, g in cands), fp.s))
        self.close()
        for (fid, g), cf in zip(cands, cflags):
            depth = sum(1 for x in self.stack if x == g.name)
            if depth >= G.cfg.get('max_rec', 2):
                self.lines.append(' if (%s) { VF_REC_BOUND(); }' % cf)
                continue
            self.stack.append(g.name)

            def onret(xs, res=res, after=after):
                s = ''
                if res is not None and xs is not None:
                    for lv, x in zip(inst.regs[res], xs):
                        s += '%s = %s; ' % (lv, x.s)
                return s + '%s = 1;' % self.mark(after)
            # arguments are evaluated into the callee's parameter registers at entry
            self.instantiate(g, args, cf, onret)
            self.stack.pop()
        if res is not None:
            t = I['ty']
            if t[0] == 'ptr' and t[1][0] == 'named':
                inst.org[res] = (t[1][1], frozenset([0]))
        self.open(after)

    def excluded(self, n):
        import fnmatch
        return any(fnmatch.fnmatch(n, p) for p in self.G.cfg.get('exclude_fns', []))

    def special_call(self, inst, f, I, n, args):
        G = self.G
        res = I['res']
        cfg = G.cfg

        def setres(e):
            if res is not None:
                self.emit('%s = %s;' % (inst.regs[res][0], e))
        if n in cfg.get('noop', []) or n in ('nsync_yield_', 'nsync_set_per_thread_waiter_', 'sched_yield'):
            if res is not None:
                setres('0')
            return True
        if n.startswith('llvm.memset'):
            if args[2][0].c is None or args[1][0].c is None:
                raise NotImplementedError('memset with symbolic length in %s' % f.name)
            self.gen_memset(args[0][0], args[1][0].c & 0xff, args[2][0].c)
            return True
        if n.startswith('llvm.memcpy') or n.startswith('llvm.memmove'):
            if args[2][0].c is None:
                raise NotImplementedError('memcpy with symbolic length in %s' % f.name)
            self.gen_memcpy(args[0][0], args[1][0], args[2][0].c)
            return True
        if n == 'vf_assert_at':
            self.emit('VF_HASSERT(%s, %s);' % (args[0][0].s, args[1][0].s))
            return True
        if n == 'vf_assert':
            G.assert_n += 1
            self.emit('VF_HASSERT(%s, %d);' % (args[0][0].s, self.srcline(I)))
            return True
        if n == 'vf_assume':
            self.emit('VF_ASSUME(%s);' % args[0][0].s)
            return True
        if n == 'vf_yield':
            self.vp('VF_K_ATOMIC')
            return True
        if n == 'vf_nondet':
            self.vp('VF_K_ATOMIC')
            setres('vf_nondet_u32()')
            return True
        if n == 'vf_nondet_nv':        # a solver-chosen value without a scheduling point
            setres('vf_nondet_u32()')
            return True
        if n == 'vf_event':
            self.emit('VF_EVENT(%d, %s, %s);' % (self.tid, args[0][0].s, args[1][0].s))
            return True
        if n == 'vf_now_ge':       # harness query of the virtual clock: now >= (s, ns)
            setres('vf_now_ge(%s, %s)' % (args[0][0].s, args[1][0].s))
            return True
        if n == 'nsync_panic_':
            self.emit('VF_PANIC();')
            return True
        if n == 'nsync_spin_delay_' and 'nsync_spin_delay_' in cfg.get('override', ['nsync_spin_delay_']):
            self.vp('VF_K_SPIN')
            self.emit('vf_spin_mark(%d);' % self.tid)
            setres(args[0][0].s)
            return True
        if n == 'malloc' or n == 'calloc':
            self.emit_malloc(inst, f, I, args)
            return True
        if n == 'free':
            self.emit_free(args[0][0])
            return True
        if n == 'clock_gettime':
            self.emit('vf_clock_advance();')
            p = args[1][0]
            org = p.org or ('struct.timespec', frozenset([0]))
            self.gen_store(X(p.s, p.c, org), 64, 'vf_now_s', 'clock_gettime')
            self.gen_store(X('(%s + 8UL)' % p.s, None if p.c is None else p.c + 8, (org[0], frozenset(q + 8 for q in org[1]))), 64, 'vf_now_ns', 'clock_gettime')
            setres('0')
            return True
        if not cfg.get('real_semaphore'):
            if n == 'nsync_mu_semaphore_init':
                self.sem_store(args[0][0], '0')
                return True
            if n == 'nsync_mu_semaphore_p':
                self.vp('VF_K_SEM_P', args[0][0].s)
                t = self.tmp()
                self.emit('uint32_t %s = 0;' % t)
                self.sem_load(args[0][0], t)
                self.emit('VF_CHECK(%s > 0, "P on an enabled semaphore");' % t)
                self.sem_store(args[0][0], '%s - 1' % t)
                self.emit('VF_SEM_ACQ(%s);' % args[0][0].s)
                return True
            if n == 'nsync_mu_semaphore_v':
                self.vp('VF_K_ATOMIC', args[0][0].s)
                t = self.tmp()
                self.emit('uint32_t %s = 0;' % t)
                self.sem_load(args[0][0], t)
                self.emit('VF_SEM_REL(%s);' % args[0][0].s)
                self.sem_store(args[0][0], 'VF_SEM_INC(%s)' % t)
                return True
            if n == 'nsync_mu_semaphore_p_with_deadline':
                # args: sem, deadline.tv_sec, deadline.tv_nsec (coerced to two i64)
                sem = args[0][0]
                ds, dn = args[1][0].s, args[2][0].s
                self.emit('vf_pd_deadline_s[%d] = (int64_t)%s; vf_pd_deadline_ns[%d] = (int64_t)%s;' % (self.tid, ds, self.tid, dn))
                self.vp('VF_K_SEM_PD', sem.s)
                t = self.tmp()
                self.emit('uint32_t %s = 0;' % t)
                self.sem_load(sem, t)
                r = inst.regs[res][0] if res is not None else self.tmp()
                if res is None:
                    self.emit('uint32_t %s;' % r)
                self.emit('if (%s > 0 && !vf_pd_prefer_timeout((int64_t)%s, (int64_t)%s)) { %s = 0; VF_SEM_ACQ(%s);' % (t, ds, dn, r, sem.s))
                self.sem_store(sem, '%s - 1' % t)
                self.emit('} else { VF_ASSUME(!vf_is_no_deadline((int64_t)%s, (int64_t)%s)); vf_clock_reach((int64_t)%s, (int64_t)%s); %s = 110; }' % (ds, dn, ds, dn, r))
                return True
        return False

    def srcline(self, I):
        self.G.assert_n += 0
        return self.G.assert_n

    def sem_x(self, x):
        return X(x.s, x.c, x.org if x.org and x.org[0] == 'struct.nsync_semaphore_s_' else ('struct.nsync_semaphore_s_', frozenset([0])))

    def sem_load(self, x, dst):
        self.gen_load(self.sem_x(x), 32, dst, 'semaphore count')

    def sem_store(self, x, src):
        self.gen_store(self.sem_x(x), 32, src, 'semaphore count')

    def emit_malloc(self, inst, f, I, args):
        G = self.G
        res = I['res']
        size = args[0][0]
        if I['callee'][1] == 'calloc':
            raise NotImplementedError('calloc')
        pool = None
        # type from a following bitcast of the result
        derived = {res}
        tyname = None
        for b in f.blocks:
            for J in b.ins:
                if J['op'] == 'phi' and any(v == ('reg', r_) for v, _ in J['inc'] for r_ in list(derived)):
                    derived.add(J['res'])
        for b in f.blocks:
            for J in b.ins:
                if J['op'] == 'bitcast' and J['val'][0] == 'reg' and J['val'][1] in derived and J['ty'][0] == 'ptr' and J['ty'][1][0] == 'named':
                    tyname = J['ty'][1][1]
        for pn, spec in G.cfg.get('pools', {}).items():
            if spec['type'] == tyname:
                pool = pn
        if pool is None and size.c is not None:
            for pn, objs in G.pools.items():
                if objs and objs[0].size == size.c:
                    pool = pn
        if pool is None:
            raise NotImplementedError('malloc in %s: no pool for type %s size %s' % (f.name, tyname, size.s))
        objs = G.pools[pool]
        lv = inst.regs[res][0]
        failc = 'vf_malloc_fails()'
        if G.cfg.get('malloc_fail_flag'):
            fo = G.globs[(G.cfg['malloc_fail_flag'], None)]      # harness global: non-zero => this allocation fails
            failc = '(%s != 0)' % fo.cname(0)
        s = 'if (%s) { %s = 0; } else ' % (failc, lv)
        for i, o in enumerate(objs):
            s += 'if (vf_pool_next_%s == %d) { vf_pool_next_%s = %d; %s = 1; %s = %dUL; %s} else ' % (
                san(pool), i, san(pool), i + 1, o.alive_name(), lv, o.base, ''.join('%s = 0; ' % o.cname(co) for (co, cs_, ck) in o.cells))
        s += '{ VF_POOL_EXHAUSTED("%s"); }' % pool
        self.emit(s)
        inst.org[res] = (G.cfg['pools'][pool]['type'], frozenset([0]))

    def emit_free(self, x):
        G = self.G
        a = self.tmp()
        s = '{ uint64_t %s = %s; if (%s == 0) { } ' % (a, x.s, a)
        for objs in G.pools.values():
            for o in objs:
                s += 'else if (%s == %dUL) { VF_ALIVE(%s, %d); %s = 0; } ' % (a, o.base, o.alive_name(), o.id, o.alive_name())
        s += 'else { VF_BAD_ACCESS(%s, "free of a non-heap address"); } }' % a
        self.emit(s)

    # ---------------------------------------------------------------- top level
    def build(self):
        G = self.G
        f = G.M.funcs[self.entry]
        ef = self.mark(self.flag())
        self.stack.append(f.name)
        self.instantiate(f, [], ef, lambda xs: 'vf_pc[%d] = -1;' % self.tid)
        out = []
        out.append('static void TH_%d(void) { /* %s */' % (self.tid, self.entry))
        out.append('  const int vf_t = %d; (void) vf_t;' % self.tid)
        out.append('  uint8_t ' + ', '.join('%s = 0' % x for x in self.flags) + ';')
        out.append('  %s = (vf_pc[%d] == 0);' % (ef, self.tid))
        for k, rf in self.resume.items():
            out.append('  %s = (vf_pc[%d] == %d);' % (rf, self.tid, k))
        out += self.lines
        out.append('}')
        return '\n'.join(out)


def generate(ll_path, cfg):
    M = parse_module(open(ll_path).read())
    G = Gen(M, cfg)
    # pass 1 creates every stack object (allocas of all function instances of all threads); pass 2 emits the code with the
    # complete object table, so that an access in one thread can resolve to a stack object of a thread emitted later
    for tid, th in enumerate(cfg['threads']):
        ThreadEmitter(G, tid, th, th).build()
    G.pass2 = True
    G.stack_seq = {}
    G.statics = []
    G.warnings = []
    threads = []
    for tid, th in enumerate(cfg['threads']):
        T = ThreadEmitter(G, tid, th, th)
        threads.append(T.build())
    out = []
    out.append('/* generated by seqcc from %s */' % os.path.basename(ll_path))
    out.append('#define VF_NT %d' % len(cfg['threads']))
    out.append('#define VF_NINIT %d' % cfg.get('ninit', 0))
    out.append('#define VF_NFINAL %d' % cfg.get('nfinal', 0))
    out.append('#include "vf_rt.h"')
    # memory cells
    for o in G.objs:
        out.append('/* object %d: %s (%s, %d bytes) base 0x%x */' % (o.id, o.name, o.kind, o.size, o.base))
        for (off, s, k) in o.cells:
            init = o.init.get(off)
            out.append('static %s %s%s;' % (ctype_bits(s * 8), o.cname(off), (' = %s' % init) if init is not None else ''))
        if o.kind in ('heap', 'stack'):
            out.append('static uint8_t %s;' % o.alive_name())
    for pn in G.pools:
        out.append('static int vf_pool_next_%s;' % san(pn))
    out += G.statics
    # semaphore count accessor for the scheduler (enabledness of P)
    s = 'static uint32_t vf_sem_count(uint64_t a) {\n'
    for o in G.objs:
        for b in G.L.occurrences(o.ty, 'struct.nsync_semaphore_s_'):
            if b in o.cellmap:
                s += '  if (a == %dUL) return %s;\n' % (o.base + b, o.cname(b))
    s += '  return 0;\n}'
    out.append(s)
    if cfg.get('hb'):
        ids = []
        for o in G.objs:
            if o.kind in ('stack',) or o.immutable:
                continue
            for (off, sz, k) in o.cells:
                ids.append((o.base + off, o.name, off))
        out.append('#define VF_NCELL %d' % (len(ids) + 1))
        s2 = 'static int vf_cell_id(uint64_t a) {\n'
        for i, (addr, nm, off) in enumerate(ids):
            s2 += '  if (a == %dUL) return %d; /* %s+%d */\n' % (addr, i + 1, nm.replace('*/', ''), off)
        s2 += '  return 0;\n}'
        out.append(s2)
        out.append('#include "vf_hb.h"')
    out.append('static const char *vf_obj_name(int id) { switch (id) {')
    for o in G.objs:
        out.append('  case %d: return "%s";' % (o.id, o.name.replace('"', '')))
    out.append('  default: return "?"; } }')
    out += threads
    out.append('static void vf_run_thread(int t) { switch (t) {')
    for tid in range(len(cfg['threads'])):
        out.append('  case %d: TH_%d(); break;' % (tid, tid))
    out.append('  } }')
    out.append('static const char *vf_thread_name[VF_NT] = { %s };' % ', '.join('"%s"' % t for t in cfg['threads']))
    out.append('#include "vf_sched.h"')
    return '\n'.join(out) + '\n', G


def main():
    cfg = json.load(open(sys.argv[2]))
    c, G = generate(sys.argv[1], cfg)
    open(sys.argv[3], 'w').write(c)
    for w in sorted(set(G.warnings)):
        sys.stderr.write('seqcc warning: %s\n' % w)
    sys.stderr.write('seqcc: %d objects, %d cells, %d lines\n' % (len(G.objs), sum(len(o.cells) for o in G.objs), c.count('\n')))


if __name__ == '__main__':
    main()
