/* seqcc runtime, part 1 (included before the generated code). */
#ifndef VF_RT_H_
#define VF_RT_H_
#include <stdint.h>
#include <stddef.h>

#ifndef VF_R
#define VF_R 4          /* rounds: each thread gets at most VF_R contexts */
#endif
#ifndef VF_BMAX
#define VF_BMAX 60      /* visible operations per context */
#endif

#define VF_K_NONE 0
#define VF_K_ATOMIC 1
#define VF_K_SPIN 2
#define VF_K_SEM_P 3
#define VF_K_SEM_PD 4
#define VF_K_BACK 5

#ifdef VF_NATIVE
#include <stdio.h>
#include <stdlib.h>
uint32_t vf_native_next (void);
static void vf_fail (const char *msg, long a) { printf ("VF-FAIL: %s (%ld)\n", msg, a); fflush (stdout); exit (99); }
#define VF_ASSERT_(c, msg, a) do { if (!(c)) { vf_fail (msg, (long) (a)); } } while (0)
#define VF_ASSUME(c) do { if (!(c)) { printf ("VF-ASSUME-FAILED: %s\n", #c); exit (77); } } while (0)
static uint32_t vf_nd;
static uint32_t vf_nondet_u32 (void) { vf_nd = vf_native_next (); return vf_nd; }
#else
uint32_t nondet_u32 (void);
#ifdef VF_EAGER_ASSERT
#define VF_ASSERT_(c, msg, a) __CPROVER_assert ((c), msg)
#define VF_ASSUME(c) __CPROVER_assume (c)
#else
/* one property for the whole program: the first violation is latched in vf_err and asserted at the end of main;
   after a violation every assumption is waived so that the path reaches that assertion */
static int vf_err;
#define VF_ASSERT_(c, msg, a) do { if (!vf_err && !(c)) { vf_err = 1; } } while (0)
#define VF_ASSUME(c) __CPROVER_assume (vf_err || (c))
#endif
static uint32_t vf_nd;
static uint32_t vf_nondet_u32 (void) { uint32_t v = nondet_u32 (); vf_nd = v; return v; }
#endif

static int vf_cur;                 /* running thread */
static uint8_t vf_first;           /* no visible operation executed yet in this context (a context executes at least one) */
static uint16_t vf_stop;           /* the visible point at which this context will be pre-empted (solver-chosen; 0xffff = runs until it blocks or ends) */
static int vf_pc[VF_NT + 2];       /* resume point; -1 = finished */
static int vf_pkind[VF_NT + 2];    /* pending visible operation */
static uint64_t vf_pobj[VF_NT + 2];
static uint8_t vf_dirty[VF_NT + 2];   /* shared memory was written (by anybody) since this thread last passed a spin point.  A spin-loop
                                         iteration that starts at a spin point and reaches the next one with vf_dirty still 0 has seen
                                         exactly the state of the previous iteration: repeating it is deterministic, so the thread is
                                         disabled until some write happens (exact, not an approximation) */
static int64_t vf_pd_deadline_s[VF_NT + 2], vf_pd_deadline_ns[VF_NT + 2];
static int vf_bound_hit;           /* a translation bound (recursion, pool) was reached on this path */

/* virtual clock */
static int64_t vf_now_s, vf_now_ns;
#define VF_NO_DEADLINE_S INT64_MAX
#define VF_NO_DEADLINE_NS 999999999
static int vf_time_le (int64_t as, int64_t an, int64_t bs, int64_t bn) { return as < bs || (as == bs && an <= bn); }
static void vf_clock_advance (void) {
#ifndef VF_FROZEN_CLOCK
	int64_t s = (int64_t) (((uint64_t) vf_nondet_u32 () << 32) | vf_nondet_u32 ());
	int64_t n = (int64_t) vf_nondet_u32 ();
	VF_ASSUME (n >= 0 && n < 1000000000 && vf_time_le (vf_now_s, vf_now_ns, s, n));
	VF_ASSUME (s < ((int64_t) 1 << 40));     /* the virtual clock stays below 2^40 s (year 36812): no time arithmetic near INT64_MAX */
	vf_now_s = s; vf_now_ns = n;
#endif
}
static void vf_clock_reach (int64_t s, int64_t n) {    /* time passes until the deadline (s, n) has been reached */
	if (!vf_time_le (s, n, vf_now_s, vf_now_ns)) { vf_now_s = s; vf_now_ns = n; }
}
static int vf_is_no_deadline (int64_t s, int64_t n) { return s == VF_NO_DEADLINE_S && n == VF_NO_DEADLINE_NS; }
static int vf_pd_prefer_timeout (int64_t s, int64_t n) { (void) s; (void) n; return 0; }
static uint32_t vf_now_ge (uint64_t s, uint64_t n) { return (uint32_t) vf_time_le ((int64_t) s, (int64_t) n, vf_now_s, vf_now_ns); }

static int vf_malloc_fails (void) {
#ifdef VF_MALLOC_FAIL
	return (int) (vf_nondet_u32 () & 1);
#else
	return 0;
#endif
}

#ifdef VF_BINARY_SEM
#define VF_SEM_INC(c) 1
#else
#define VF_SEM_INC(c) ((c) + 1)
#endif

/* the property oracles */
#define VF_ALIVE(flag, id) VF_ASSERT_ ((flag), "access to an object after it was freed / after its frame returned", (id))
#define VF_BAD_ACCESS(a, what) VF_ASSERT_ (0, "memory access outside every live object (wild or unmapped pointer): " what, (a))
#define VF_NULL_ACCESS(what) VF_ASSERT_ (0, "nsync ASSERT failed / NULL dereference: " what, 0)
#define VF_PANIC() do { VF_ASSERT_ (0, "nsync_panic_ called", 0); VF_ASSUME (0); } while (0)
#define VF_UNREACHABLE() VF_ASSUME (0)
#define VF_HASSERT(c, n) VF_ASSERT_ ((c), "harness assertion", (n))
#define VF_CHECK(c, msg) VF_ASSERT_ ((c), msg, 0)
#define VF_REC_BOUND() do { vf_bound_hit = 1; VF_ASSUME (0); } while (0)
#define VF_POOL_EXHAUSTED(p) do { vf_bound_hit = 1; VF_ASSUME (0); } while (0)
#ifdef VF_NATIVE
#define VF_EVENT(t, a, b) printf ("EV %lu %lu\n", (unsigned long) (a), (unsigned long) (b))
#else
#define VF_EVENT(t, a, b) do { } while (0)
#endif

static void vf_wrote_ (void) { int i_; for (i_ = 0; i_ < VF_NT; i_++) { vf_dirty[i_] = 1; } }
#define VF_WROTE() vf_wrote_ ()
static void vf_spin_mark (int t) { vf_dirty[t] = 0; }

#ifdef VF_HB
/* happens-before is computed in vf_hb.h (included by the generated code after the cell table) */
static void vf_hb_load (int t, uint64_t a, int ord);
static void vf_hb_store (int t, uint64_t a, int ord);
static void vf_hb_rmw (int t, uint64_t a, int ord);
static void vf_hb_plain (int t, uint64_t a, int wr);
#define VF_ATOMIC_LOAD_HOOK(a, ord) vf_hb_load (vf_t, (a), (ord))
#define VF_ATOMIC_STORE_HOOK(a, ord) vf_hb_store (vf_t, (a), (ord))
#define VF_ATOMIC_RMW_HOOK(a, ord) vf_hb_rmw (vf_t, (a), (ord))
#define VF_FENCE(ord) do { } while (0)
#define VF_SEM_ACQ(a) do { } while (0)       /* no ordering is credited to the sleeping primitive */
#define VF_SEM_REL(a) do { } while (0)
#define VF_PLAIN_RD(a) vf_hb_plain (vf_t, (a), 0)
#define VF_PLAIN_WR(a) vf_hb_plain (vf_t, (a), 1)
#else
#define VF_PLAIN_RD(a) do { } while (0)
#define VF_PLAIN_WR(a) do { } while (0)
#endif
#ifndef VF_HB
#define VF_ATOMIC_LOAD_HOOK(a, ord) do { } while (0)
#define VF_ATOMIC_STORE_HOOK(a, ord) do { } while (0)
#define VF_ATOMIC_RMW_HOOK(a, ord) do { } while (0)
#define VF_FENCE(ord) do { } while (0)
#define VF_SEM_ACQ(a) do { } while (0)
#define VF_SEM_REL(a) do { } while (0)
#endif

static uint32_t vf_sem_count (uint64_t a);
static int vf_op_enabled (int t, int kind, uint64_t obj) {
	if (kind == VF_K_SEM_P) { return vf_sem_count (obj) > 0; }
	if (kind == VF_K_SEM_PD) { return vf_sem_count (obj) > 0 || !vf_is_no_deadline (vf_pd_deadline_s[t], vf_pd_deadline_ns[t]); }
	if (kind == VF_K_SPIN) { return vf_dirty[t]; }
	return 1;
}

/* visible point k: the context ends here if its budget is used up or the operation cannot run now */
#ifdef VF_NATIVE
#define VF_LOG_VP(k, kind, obj, ran) do { if (getenv ("VF_VERBOSE")) { printf ("  T%d vp %d kind %d obj %lx %s\n", vf_t, (k), (kind), (unsigned long) (obj), (ran) ? "run" : "STOP"); } } while (0)
#else
#define VF_LOG_VP(k, kind, obj, ran) do { } while (0)
#endif
#define VF_VP(k, kind, obj, rf) do { \
	if ((vf_stop == (k) && !vf_first) || !vf_op_enabled (vf_t, (kind), (uint64_t) (obj))) { vf_pc[vf_t] = (k); vf_pkind[vf_t] = (kind); vf_pobj[vf_t] = (uint64_t) (obj); VF_LOG_VP (k, kind, obj, 0); } \
	else { vf_first = 0; rf = 1; VF_LOG_VP (k, kind, obj, 1); } } while (0)
#define VF_BACKEDGE(k) do { vf_pc[vf_t] = (k); vf_pkind[vf_t] = VF_K_BACK; VF_LOG_VP (k, VF_K_BACK, 0, 0); } while (0)

#endif
