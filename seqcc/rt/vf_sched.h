/* seqcc runtime, part 2 (included after the generated code): round-robin scheduler with symbolic budgets. */
static int vf_enabled (int i) {
	if (vf_pc[i] < 0) { return 0; }
	return vf_op_enabled (i, vf_pkind[i], vf_pobj[i]);
}

#ifndef VF_NINIT
#define VF_NINIT 0
#endif
#ifndef VF_NFINAL
#define VF_NFINAL 0
#endif
#define VF_NSCHED (VF_NT - VF_NINIT - VF_NFINAL)    /* scheduled threads are 0 .. VF_NSCHED-1; then init, then final */

static void vf_run_to_completion (int t) {
	int i;
	for (i = 0; i < 12; i++) {
		if (vf_pc[t] >= 0) {
			VF_ASSERT_ (vf_enabled (t), "set-up / final code blocks", t);
			vf_cur = t; vf_stop = 0xffff; vf_first = 1;
			vf_run_thread (t);
		}
	}
	if (vf_pc[t] >= 0) { vf_bound_hit = 1; VF_ASSUME (0); }
}

int main (void) {
	int r, t, j;
	for (j = 0; j < VF_NT; j++) { vf_dirty[j] = 1; }
#ifdef VF_HB
	vf_hb_init ();
#endif
#if VF_NINIT
	vf_run_to_completion (VF_NSCHED);
#ifdef VF_HB
	vf_hb_fork (VF_NSCHED);           /* set-up code happens before every thread */
#endif
#endif
	for (r = 0; r < VF_R; r++) {
		for (t = 0; t < VF_NSCHED; t++) {
			int alldone = 1, any = 0;
			uint32_t b;
			for (j = 0; j < VF_NSCHED; j++) { alldone &= (vf_pc[j] < 0); any |= vf_enabled (j); }
#ifndef VF_NO_DEADLOCK_CHECK
			VF_ASSERT_ (alldone || any, "deadlock: every unfinished thread is blocked for ever (lost wake-up)", r * 100 + t);
#endif
			b = vf_nondet_u32 ();       /* 0: the thread is not scheduled in this slot; k: it runs until visible point k (or blocks / ends) */
			VF_ASSUME (b <= 0xffff);
#ifdef VF_NATIVE
			if (getenv ("VF_AUTOSKIP") && vf_pc[t] >= 0 && !vf_enabled (t)) { b = 0; }   /* smoke tests: random schedules skip blocked threads */
#endif
			if (b > 0 && vf_pc[t] >= 0) {
				VF_ASSUME (vf_enabled (t));
				vf_cur = t; vf_stop = (uint16_t) b; vf_first = 1;
#ifdef VF_NATIVE
				if (getenv ("VF_VERBOSE")) { printf ("round %d thread %d (%s) stop-at %u pc %d\n", r, t, vf_thread_name[t], b, vf_pc[t]); }
#endif
				vf_run_thread (t);
			}
		}
	}
	{
		int alldone = 1, any = 0;
		for (j = 0; j < VF_NSCHED; j++) { alldone &= (vf_pc[j] < 0); any |= vf_enabled (j); }
#ifndef VF_NO_DEADLOCK_CHECK
		VF_ASSERT_ (alldone || any, "deadlock: every unfinished thread is blocked for ever (lost wake-up)", 9999);
#endif
#if VF_NFINAL
#ifdef VF_HB
		vf_hb_join_all (VF_NSCHED + VF_NINIT);     /* the final checks run after every thread has been joined */
#endif
		if (alldone) { vf_run_to_completion (VF_NSCHED + VF_NINIT); }
#endif
#ifdef WITNESS
		__CPROVER_assume (alldone && !vf_bound_hit);
		__CPROVER_assert (0, "WITNESS reachable: all threads finished");
#endif
#ifdef VF_NATIVE
		printf ("VF-END alldone=%d\n", alldone);
#elif !defined(VF_EAGER_ASSERT)
		__CPROVER_assert (vf_err == 0, "no violation on any schedule within the bounds");
#endif
	}
	return 0;
}

#ifdef VF_NATIVE
/* nondeterministic choices come from the counterexample, one value per line in $VF_TRACE */
uint32_t vf_native_next (void) {
	static FILE *f;
	unsigned long v;
	if (f == NULL) { const char *p = getenv ("VF_TRACE"); f = p ? fopen (p, "r") : NULL; if (f == NULL) { printf ("no trace\n"); exit (78); } }
	if (fscanf (f, "%lu", &v) != 1) { return 0; }
	return (uint32_t) v;
}
#endif
