/* C03: happens-before from the DECLARED memory orders only (vector clocks; C++20 release-sequence rules).
 *   - a release store publishes the writer's clock on the location; a relaxed store by anybody cuts the release sequence;
 *     read-modify-writes continue it (and add their own clock if they are releases);
 *   - an acquire load / acquire RMW that reads the location joins the published clock; relaxed reads and failed CASes
 *     (failure order relaxed) learn nothing;
 *   - nothing is credited to the host CPU, to sequential consistency of the interleaving, or to the semaphore.
 * Every plain (non-atomic) access to shared memory - client data inside critical sections and nsync's own non-atomic
 * fields - must be ordered by happens-before with the previous conflicting accesses. */
#ifndef VF_HB_H_
#define VF_HB_H_
static uint8_t vf_vc[VF_NT][VF_NT];          /* vf_vc[t][u]: what thread t knows of thread u's clock */
static uint8_t vf_rel[VF_NCELL][VF_NT];      /* clock published on an atomic location (by its release sequence) */
static uint8_t vf_wthr[VF_NCELL];            /* last plain writer + 1 */
static uint8_t vf_wclk[VF_NCELL];
static uint8_t vf_rclk[VF_NCELL][VF_NT];     /* last plain read by each thread */

static void vf_hb_init (void) { int t; for (t = 0; t < VF_NT; t++) { vf_vc[t][t] = 1; } }
static void vf_hb_fork (int from) { int t; for (t = 0; t < VF_NT; t++) { if (t != from && vf_vc[t][from] < vf_vc[from][from]) { vf_vc[t][from] = vf_vc[from][from]; } } vf_vc[from][from]++; }
static void vf_hb_join_all (int into) { int t, u; for (t = 0; t < VF_NT; t++) { for (u = 0; u < VF_NT; u++) { if (vf_vc[into][u] < vf_vc[t][u]) { vf_vc[into][u] = vf_vc[t][u]; } } } }

static void vf_hb_load (int t, uint64_t a, int ord) {
	int c = vf_cell_id (a), u;
	if (ord == 1 || ord >= 3) { for (u = 0; u < VF_NT; u++) { if (vf_vc[t][u] < vf_rel[c][u]) { vf_vc[t][u] = vf_rel[c][u]; } } }
}
static void vf_hb_store (int t, uint64_t a, int ord) {
	int c = vf_cell_id (a), u;
	if (ord >= 2) { for (u = 0; u < VF_NT; u++) { vf_rel[c][u] = vf_vc[t][u]; } vf_vc[t][t]++; }
	else { for (u = 0; u < VF_NT; u++) { vf_rel[c][u] = 0; } }
}
static void vf_hb_rmw (int t, uint64_t a, int ord) {
	int c = vf_cell_id (a), u;
	if (ord == 1 || ord >= 3) { for (u = 0; u < VF_NT; u++) { if (vf_vc[t][u] < vf_rel[c][u]) { vf_vc[t][u] = vf_rel[c][u]; } } }
	if (ord >= 2) { for (u = 0; u < VF_NT; u++) { if (vf_rel[c][u] < vf_vc[t][u]) { vf_rel[c][u] = vf_vc[t][u]; } } vf_vc[t][t]++; }
}
static void vf_hb_plain (int t, uint64_t a, int wr) {
	int c = vf_cell_id (a), u;
	if (c == 0) { return; }
	if (vf_wthr[c] != 0 && vf_wthr[c] - 1 != t) {
		VF_ASSERT_ (vf_wclk[c] <= vf_vc[t][vf_wthr[c] - 1], "C03: plain access not ordered (happens-before, declared orders only) after the last write by another thread: data race", a);
	}
	if (wr) {
		for (u = 0; u < VF_NT; u++) {
			if (u != t) { VF_ASSERT_ (vf_rclk[c][u] <= vf_vc[t][u], "C03: plain write not ordered after a read by another thread: data race", a); }
		}
		vf_wthr[c] = (uint8_t) (t + 1); vf_wclk[c] = vf_vc[t][t];
	} else {
		vf_rclk[c][t] = vf_vc[t][t];
	}
}
#endif
