#!/usr/bin/env python3
"""seqcc: LLVM-14 IR of the real nsync units + harness threads  ->  one loop-free, pointer-free C program
(per thread a flat, predicated, resumable function; memory lowered to scalar cells) for CBMC and for native replay.

usage: seqcc.py linked.ll config.json out.c
"""
import sys, os, re, json, collections
sys.path.insert(0, os.path.dirname(os.path.abspath(__file__)))
from llparse import parse_module
from layout import Layout, Obj

ORD = {'monotonic': 0, 'unordered': 0, 'acquire': 1, 'release': 2, 'acq_rel': 3, 'seq_cst': 4}


def san(n):
    return re.sub(r'[^A-Za-z0-9_]', '_', n)


class X:
    """a scalar C expression with optional constant value and static pointer origin"""
    __slots__ = ('s', 'c', 'org')

    def __init__(self, s, c=None, org=None):
        self.s, self.c, self.org = s, c, org

    @staticmethod
    def const(v, bits=64):
        v &= (1 << bits) - 1
        return X(('%dU' % v) if bits <= 32 else ('%dUL' % v), v)


def ctype_bits(bits):
    return 'uint8_t' if bits <= 8 else 'uint16_t' if bits <= 16 else 'uint32_t' if bits <= 32 else 'uint64_t'


class Gen:
    def __init__(self, M, cfg):
        self.M, self.cfg = M, cfg
        self.L = Layout(M, cfg.get('layout_override', {}))
        self.objs = []
        self.globs = {}            # (name, thread or None) -> Obj
        self.fnid = {}
        self.statics = []          # declarations of frame variables
        self.warnings = []
        self.pools = {}            # pool name -> [Obj]
        self.nthreads = len(cfg['threads'])
        self.assert_n = 0
        self.asserts = []
        self.stack_seq = {}
        self.stack_objs = {}
        self.setup_addr_taken()
        self.setup_globals()
        self.setup_pools()

    # ------------------------------------------------------------------ types
    def leaves(self, t):
        """flattened scalar leaves of a first-class type: list of bit widths (ptr = 64)"""
        r = self.L.resolve(t)
        k = r[0]
        if k == 'int':
            return [r[1]]
        if k in ('ptr', 'func'):
            return [64]
        if k == 'fp':
            return [64]
        if k == 'struct':
            out = []
            for f in r[1]:
                out += self.leaves(f)
            return out
        if k == 'arr':
            out = []
            for i in range(r[1]):
                out += self.leaves(r[2])
            return out
        if k == 'void':
            return []
        raise NotImplementedError('leaves %r' % (t,))

    # ------------------------------------------------------------------ objects
    def new_obj(self, name, ty, kind, thread=None, pool=None):
        if kind == 'stack' and getattr(self, 'pass2', False):
            # second pass: the object table is complete (stack objects of every thread exist before any access is emitted)
            k = self.stack_seq.get(name, 0)
            self.stack_seq[name] = k + 1
            return self.stack_objs[(name, k)]
        size = self.L.size_align(ty)[0]
        cells = self.L.cells(ty)
        if len(cells) > self.cfg.get('max_cells', 160):
            cells = []             # opaque (big buffers): any access is reported as unmapped
        o = Obj(len(self.objs), name, ty, size, cells, kind, thread, pool)
        self.objs.append(o)
        if kind == 'stack':
            k = self.stack_seq.get(name, 0)
            self.stack_seq[name] = k + 1
            self.stack_objs[(name, k)] = o
        return o

    def setup_addr_taken(self):
        M = self.M
        at = set()

        def scan(v):
            if v is None or not isinstance(v, tuple):
                return
            if v[0] == 'glob' and v[1] in M.funcs:
                at.add(v[1])
            elif v[0] == 'cexpr':
                for x in v[1:]:
                    if isinstance(x, tuple):
                        scan(x)
                    elif isinstance(x, list):
                        for it in x:
                            scan(it[1])
            elif v[0] == 'agg':
                for (_, ev) in v[1]:
                    scan(ev)
        for g in M.globals.values():
            scan(g['init'])
        for f in M.funcs.values():
            for b in f.blocks:
                for I in b.ins:
                    for key in ('val', 'a', 'b', 'ptr', 'cmp', 'new', 'agg', 'c'):
                        if key in I:
                            scan(I[key])
                    if I['op'] == 'phi':
                        for (v, _) in I['inc']:
                            scan(v)
                    if I['op'] == 'call':
                        for (_, av) in I['args']:
                            scan(av)
        self.addr_taken = at
        for i, n in enumerate(sorted(at)):
            self.fnid[n] = 0x7f000000 + 16 * (i + 1)

    def setup_globals(self):
        todo = []
        for n, g in self.M.globals.items():
            ty = g['type']
            r = self.L.resolve(ty)
            is_str = r[0] == 'arr' and self.L.resolve(r[2]) == ('int', 8)
            if g['tls']:
                for t in range(self.nthreads):
                    o = self.new_obj('%s@%d' % (n, t), ty, 'tls', thread=t)
                    self.globs[(n, t)] = o
                    todo.append((o, g['init'], ty))
            else:
                o = self.new_obj(n, ty, 'global')
                o.immutable = bool(g['const']) or n in self.cfg.get('const_globals', [])
                if is_str:
                    o.cells = []; o.cellmap = {}
                self.globs[(n, None)] = o
                if not is_str:
                    todo.append((o, g['init'], ty))
        for (o, init, ty) in todo:       # initialisers may refer to globals defined later
            self.init_obj(o, init, ty)
        # per-thread initial values of TLS pointers: {"waiter_for_thread": ["W0", "W1", ...]} (names of harness globals)
        for tls_name, targets in self.cfg.get('tls_init', {}).items():
            for t, gname in enumerate(targets):
                if gname and (tls_name, t) in self.globs:
                    tgt = self.globs[(gname, None)]
                    self.globs[(tls_name, t)].init[0] = '%dUL' % tgt.base
                    self.globs[(tls_name, t)].initc[0] = tgt.base

    def setup_pools(self):
        for pname, spec in self.cfg.get('pools', {}).items():
            ty = ('named', spec['type']) if not spec.get('array') else ('arr', spec['array'], ('named', spec['type']))
            self.pools[pname] = [self.new_obj('%s#%d' % (pname, i), ty, 'heap', pool=pname) for i in range(spec['count'])]

    def init_obj(self, o, v, ty, base=0):
        """static initialiser -> o.init[offset] = C expr"""
        if v is None or v[0] in ('zero', 'undef'):
            return
        r = self.L.resolve(ty)
        if v[0] == 'agg':
            if r[0] == 'struct':
                for i, (et, ev) in enumerate(v[1]):
                    off, ft = self.L.field_offset(r, i)
                    self.init_obj(o, ev, ft, base + off)
            else:
                es = self.L.size_align(r[2])[0]
                for i, (et, ev) in enumerate(v[1]):
                    self.init_obj(o, ev, r[2], base + i * es)
            return
        if v[0] == 'str':
            return
        x = self.const_val(v, ty, None)
        o.init[base] = x.s
        o.initc[base] = x.c

    def glob_obj(self, name, thread):
        g = self.M.globals[name]
        return self.globs[(name, thread if g['tls'] else None)]

    # ------------------------------------------------------------------ constants
    def const_val(self, v, ty, thread):
        """constant (non-register) scalar operand -> X"""
        k = v[0]
        bits = self.leaves(ty)[0] if ty is not None and self.leaves(ty) else 64
        if k == 'int':
            return X.const(v[1], bits)
        if k in ('null', 'zero'):
            return X.const(0, bits)
        if k == 'undef':
            return X.const(0, bits)
        if k == 'glob':
            if v[1] in self.M.funcs:
                if v[1] not in self.fnid:
                    self.fnid[v[1]] = 0x7f000000 + 16 * (len(self.fnid) + 1)
                return X.const(self.fnid[v[1]])
            o = self.glob_obj(v[1], thread)
            return X.const(o.base)
        if k == 'cexpr':
            if v[1] == 'gep':
                _, _, bt, pt, pv, idx = v
                basex = self.const_val(pv, pt, thread)
                off = self.gep_const_offset(bt, [(it, iv) for it, iv in idx])
                return X.const(basex.c + off)
            if v[1] in ('bitcast', 'inttoptr', 'ptrtoint', 'addrspacecast'):
                return self.const_val(v[3], v[2], thread)
            if v[1] in ('trunc', 'zext'):
                x = self.const_val(v[3], v[2], thread)
                return X.const(x.c, self.leaves(v[4])[0])
            if v[1] == 'bin':
                _, _, op, t1, a, b = v
                xa, xb = self.const_val(a, t1, thread), self.const_val(b, t1, thread)
                w = self.leaves(t1)[0]
                f = {'add': lambda p, q: p + q, 'sub': lambda p, q: p - q, 'mul': lambda p, q: p * q, 'and': lambda p, q: p & q,
                     'or': lambda p, q: p | q, 'xor': lambda p, q: p ^ q, 'shl': lambda p, q: p << q, 'lshr': lambda p, q: p >> q}[op]
                return X.const(f(xa.c, xb.c), w)
        raise NotImplementedError('const %r' % (v,))

    def gep_const_offset(self, bt, idx):
        off = 0
        cur = bt
        for n, (it, iv) in enumerate(idx):
            if iv[0] != 'int':
                raise NotImplementedError('non-constant gep in constant')
            i = iv[1]
            if n == 0:
                off += i * self.L.size_align(cur)[0]
            else:
                r = self.L.resolve(cur)
                if r[0] == 'struct':
                    o, ft = self.L.field_offset(r, i)
                    off += o; cur = ft
                else:
                    off += i * self.L.size_align(r[2])[0]; cur = r[2]
        return off

    # ------------------------------------------------------------------ candidate cells
    def candidates(self, x, size, thread):
        """cells an access of `size` bytes through pointer expression x may touch: [(obj, off)]"""
        if x.c is not None:
            for o in self.objs:
                if o.base <= x.c < o.base + max(o.size, 1):
                    off = x.c - o.base
                    if off in o.cellmap and o.cellmap[off][0] == size:
                        return [(o, off)]
                    return []
            return []
        out = []
        if x.org is not None:
            sname, offs = x.org
            for o in self.objs:
                if o.kind in ('tls', 'stack') and False:
                    continue
                for b in self.L.occurrences(o.ty, sname):
                    for d in sorted(offs):
                        off = b + d
                        if off in o.cellmap and o.cellmap[off][0] == size and (o, off) not in out:
                            out.append((o, off))
            return out
        for o in self.objs:
            for (off, s, k) in o.cells:
                if s == size:
                    out.append((o, off))
        return out


def load_config(path):
    return json.load(open(path))


if __name__ == '__main__':
    from emit import main
    main()
