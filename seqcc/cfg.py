"""CFG analysis for seqcc: dominators, natural loops, loop-collapsed topological order."""
import collections


def succs_of(b):
    T = b.ins[-1]
    if T['op'] == 'br':
        return [T['dest']] if 'dest' in T else [T['t'], T['f']]
    if T['op'] == 'switch':
        return [T['default']] + [c[1] for c in T['cases']]
    return []


class Loop:
    def __init__(self, header):
        self.header = header
        self.body = {header}
        self.parent = None
        self.children = []
        self.idx = 0


class FnCFG:
    def __init__(self, f):
        self.f = f
        self.blocks = {b.name: b for b in f.blocks}
        self.entry = f.blocks[0].name
        self.succ = {b.name: succs_of(b) for b in f.blocks}
        # reachable only
        seen = []
        st = [self.entry]
        vis = set()
        while st:
            n = st.pop()
            if n in vis:
                continue
            vis.add(n)
            seen.append(n)
            for s in self.succ[n]:
                st.append(s)
        self.reach = vis
        self.pred = collections.defaultdict(list)
        for n in vis:
            for s in self.succ[n]:
                self.pred[s].append(n)
        self.rpo = self._rpo()
        self.dom = self._dominators()
        self.loops = self._loops()
        self.nest = {n: self._nest(n) for n in vis}

    def _rpo(self):
        order = []
        vis = set()

        def dfs(n):
            vis.add(n)
            for s in self.succ[n]:
                if s not in vis:
                    dfs(s)
            order.append(n)
        sys_rec = __import__('sys')
        sys_rec.setrecursionlimit(10000)
        dfs(self.entry)
        return order[::-1]

    def _dominators(self):
        idx = {n: i for i, n in enumerate(self.rpo)}
        dom = {n: None for n in self.rpo}
        dom[self.entry] = {self.entry}
        changed = True
        while changed:
            changed = False
            for n in self.rpo:
                if n == self.entry:
                    continue
                ps = [dom[p] for p in self.pred[n] if dom[p] is not None]
                if not ps:
                    continue
                new = set.intersection(*ps) | {n}
                if new != dom[n]:
                    dom[n] = new
                    changed = True
        return dom

    def _loops(self):
        loops = {}
        for u in self.rpo:
            for h in self.succ[u]:
                if h in self.dom[u]:          # back-edge u -> h
                    L = loops.setdefault(h, Loop(h))
                    st = [u]
                    while st:
                        x = st.pop()
                        if x in L.body:
                            continue
                        L.body.add(x)
                        for p in self.pred[x]:
                            st.append(p)
        ls = sorted(loops.values(), key=lambda L: len(L.body))
        for i, L in enumerate(ls):
            for Lp in ls[i + 1:]:
                if L.header in Lp.body and L is not Lp:
                    L.parent = Lp
                    Lp.children.append(L)
                    break
        order = {n: i for i, n in enumerate(self.rpo)}
        for k, L in enumerate(sorted(loops.values(), key=lambda L: order[L.header])):
            L.idx = k
        return loops

    def _nest(self, n):
        """loops containing n, outermost first"""
        ls = [L for L in self.loops.values() if n in L.body]
        ls.sort(key=lambda L: -len(L.body))
        return ls

    def region_order(self, L):
        """items of the region (function body if L is None, else body of L) in topological order, immediate inner loops collapsed.
        item = ('b', name) | ('loop', Loop)"""
        if L is None:
            region = set(self.rpo)
            inner = [x for x in self.loops.values() if x.parent is None]
            header = self.entry
        else:
            region = set(L.body)
            inner = list(L.children)
            header = L.header
        rep = {}
        for x in inner:
            for n in x.body:
                rep[n] = x
        nodes = []
        seen = set()
        for n in self.rpo:
            if n not in region:
                continue
            r = rep.get(n, n)
            if id(r) in seen or (not isinstance(r, Loop) and r in seen):
                continue
            seen.add(id(r) if isinstance(r, Loop) else r)
            nodes.append(r)
        # edges between nodes (ignoring back-edges to `header` of this region)
        def node_of(n):
            return rep.get(n, n)
        adj = collections.defaultdict(set)
        indeg = collections.defaultdict(int)
        for n in region:
            for s in self.succ[n]:
                if s not in region:
                    continue
                if s == header and L is not None:
                    continue
                a, b = node_of(n), node_of(s)
                if a is b:
                    continue
                ka = id(a) if isinstance(a, Loop) else a
                kb = id(b) if isinstance(b, Loop) else b
                if kb not in adj[ka]:
                    adj[ka].add(kb)
                    indeg[kb] += 1
        key = lambda r: id(r) if isinstance(r, Loop) else r
        byk = {key(r): r for r in nodes}
        pos = {key(r): i for i, r in enumerate(nodes)}
        ready = sorted([k for k in byk if indeg[k] == 0], key=lambda k: pos[k])
        out = []
        while ready:
            k = ready.pop(0)
            r = byk[k]
            out.append(('loop', r) if isinstance(r, Loop) else ('b', r))
            for m in sorted(adj[k], key=lambda q: pos[q]):
                indeg[m] -= 1
                if indeg[m] == 0:
                    ready.append(m)
            ready.sort(key=lambda q: pos[q])
        if len(out) != len(nodes):
            raise RuntimeError('irreducible control flow in %s' % self.f.name)
        return out
