"""x86-64 data layout of LLVM types and the flat 'cell' memory model used by seqcc.

Every memory object known to a scenario (IR globals, per-thread copies of TLS globals, heap pool objects,
address-taken locals of each function instance) is a list of scalar cells (offset, size, kind) obtained by
flattening its LLVM type with the real layout, so container_of arithmetic and ptrtoint are plain integer
arithmetic on addresses  base(object) + offset.
"""

class Layout:
    def __init__(self, M, overrides=None):
        self.M = M
        self.ov = overrides or {}      # struct name -> [(offset, size, kind)] with 'size' total in key '__size__'
        self._sz = {}

    def resolve(self, t):
        while t[0] == 'named':
            t = self.M.types[t[1]]
        return t

    def size_align(self, t):
        if t[0] == 'named':
            k = t[1]
            if k in self._sz:
                return self._sz[k]
            if k in self.ov:
                r = (self.ov[k]['size'], self.ov[k].get('align', 8))
            else:
                r = self.size_align(self.M.types[k])
            self._sz[k] = r
            return r
        k = t[0]
        if k == 'int':
            n = t[1]
            s = 1 if n <= 8 else 2 if n <= 16 else 4 if n <= 32 else 8 if n <= 64 else 16
            return (s, s)
        if k == 'ptr' or k == 'func':
            return (8, 8)
        if k == 'fp':
            return {'float': (4, 4), 'double': (8, 8), 'x86_fp80': (16, 16)}[t[1]]
        if k == 'arr':
            s, a = self.size_align(t[2])
            return (s * t[1], a)
        if k == 'struct':
            off = 0; al = 1
            for f in t[1]:
                s, a = self.size_align(f)
                if t[2]:
                    a = 1
                off = (off + a - 1) // a * a
                off += s
                al = max(al, a)
            off = (off + al - 1) // al * al
            return (off, al)
        if k in ('opaque', 'void'):
            return (0, 1)
        raise NotImplementedError('size of %r' % (t,))

    def field_offset(self, st, idx):
        st = self.resolve(st)
        off = 0
        for i, f in enumerate(st[1]):
            s, a = self.size_align(f)
            if st[2]:
                a = 1
            off = (off + a - 1) // a * a
            if i == idx:
                return off, f
            off += s
        raise IndexError

    def cells(self, t, base=0):
        """flatten to [(offset, size, kind)] kind in int|ptr"""
        if t[0] == 'named' and t[1] in self.ov:
            return [(base + o, s, k) for (o, s, k) in self.ov[t[1]]['cells']]
        r = self.resolve(t)
        k = r[0]
        if k == 'int':
            return [(base, self.size_align(r)[0], 'int')]
        if k in ('ptr', 'func'):
            return [(base, 8, 'ptr')]
        if k == 'fp':
            return [(base, self.size_align(r)[0], 'int')]
        if k == 'arr':
            es = self.size_align(r[2])[0]
            out = []
            for i in range(r[1]):
                out += self.cells(r[2], base + i * es)
            return out
        if k == 'struct':
            out = []
            for i in range(len(r[1])):
                off, ft = self.field_offset(r, i)
                out += self.cells(ft, base + off)
            return out
        return []

    def occurrences(self, t, want, base=0):
        """byte offsets at which named struct `want` occurs inside type t (including t itself)"""
        out = []
        if t[0] == 'named':
            if t[1] == want:
                out.append(base)
            if t[1] in self.ov:
                return out
        r = self.resolve(t)
        if r[0] == 'arr':
            es = self.size_align(r[2])[0]
            sub = self.occurrences(r[2], want, 0)
            for i in range(r[1]):
                out += [base + i * es + o for o in sub]
        elif r[0] == 'struct':
            for i in range(len(r[1])):
                off, ft = self.field_offset(r, i)
                out += self.occurrences(ft, want, base + off)
        return out


class Obj:
    def __init__(self, oid, name, ty, size, cells, kind, thread=None, pool=None):
        self.id, self.name, self.ty, self.size, self.cells, self.kind = oid, name, ty, size, cells, kind
        self.base = (oid + 1) << 16
        self.thread = thread      # owner thread for tls / stack objects
        self.pool = pool
        self.init = {}            # offset -> C expr
        self.initc = {}           # offset -> numeric value
        self.immutable = False    # never written: loads at constant addresses fold to the initialiser
        self.cellmap = {o: (s, k) for (o, s, k) in cells}

    def cname(self, off):
        return 'M%d_%d' % (self.id, off)

    def alive_name(self):
        return 'A%d' % self.id
