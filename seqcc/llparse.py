#!/usr/bin/env python3
"""Parser for the subset of LLVM-14 textual IR that clang emits for nsync (typed pointers)."""
import re, sys, json, collections

# ----------------------------------------------------------------- tokenizer
TOK = re.compile(r'''
   (?P<ws>\s+)
 | (?P<str>c"(?:[^"\\]|\\[0-9A-Fa-f]{2}|\\\\)*")
 | (?P<qid>[%@]"[^"]*")
 | (?P<id>[%@][-a-zA-Z$._0-9]+)
 | (?P<meta>![-a-zA-Z$._0-9]*)
 | (?P<attr>\#[0-9]+)
 | (?P<num>-?[0-9]+(?:\.[0-9]+(?:e[+-]?[0-9]+)?)?)
 | (?P<dots>\.\.\.)
 | (?P<word>[a-zA-Z_][a-zA-Z_0-9.]*)
 | (?P<punct>[()\[\]{}<>,=*:])
''', re.X)

def tokenize(s):
    out = []
    i = 0
    while i < len(s):
        if s[i] == ';':
            break
        m = TOK.match(s, i)
        if not m:
            raise SyntaxError("tok: %r at %d in %r" % (s[i:i+20], i, s))
        i = m.end()
        k = m.lastgroup
        if k == 'ws':
            continue
        out.append(m.group(k))
    return out

class P:
    """token stream"""
    def __init__(self, toks): self.t = toks; self.i = 0
    def peek(self, k=0): return self.t[self.i+k] if self.i+k < len(self.t) else None
    def next(self):
        x = self.t[self.i]; self.i += 1; return x
    def eat(self, x):
        if self.peek() == x:
            self.i += 1; return True
        return False
    def expect(self, x):
        y = self.next()
        if y != x: raise SyntaxError("expected %r got %r in %r" % (x, y, ' '.join(self.t)))
    def done(self): return self.i >= len(self.t)

PARAM_ATTRS = {'noundef','nocapture','nonnull','readonly','writeonly','readnone','signext','zeroext',
               'noalias','immarg','returned','nofree','inreg','swiftself','nest'}
def skip_param_attrs(p):
    while True:
        x = p.peek()
        if x in PARAM_ATTRS: p.next()
        elif x in ('align',):
            p.next(); p.next()
        elif x in ('dereferenceable','dereferenceable_or_null','byval','sret','byref','preallocated','inalloca','elementtype'):
            p.next(); p.expect('(')
            depth = 1
            while depth:
                y = p.next()
                if y == '(': depth += 1
                elif y == ')': depth -= 1
        else: break

# ----------------------------------------------------------------- types
def parse_type(p):
    x = p.next()
    if x == 'void': t = ('void',)
    elif re.fullmatch(r'i[0-9]+', x): t = ('int', int(x[1:]))
    elif x in ('float','double','x86_fp80'): t = ('fp', x)
    elif x == 'ptr': t = ('ptr', ('int', 8))
    elif x[0] == '%': t = ('named', x[1:].strip('"'))
    elif x == '{':
        fs = []
        if not p.eat('}'):
            while True:
                fs.append(parse_type(p))
                if p.eat('}'): break
                p.expect(',')
        t = ('struct', tuple(fs), False)
    elif x == '<' and p.peek() == '{':
        p.next(); fs = []
        if not p.eat('}'):
            while True:
                fs.append(parse_type(p))
                if p.eat('}'): break
                p.expect(',')
        p.expect('>')
        t = ('struct', tuple(fs), True)
    elif x == '[':
        n = int(p.next()); p.expect('x'); e = parse_type(p); p.expect(']')
        t = ('arr', n, e)
    elif x == 'opaque': t = ('opaque',)
    else:
        raise SyntaxError("type? %r in %r" % (x, ' '.join(p.t)))
    while True:
        if p.eat('*'): t = ('ptr', t)
        elif p.peek() == '(':
            p.next(); ps = []; va = False
            if not p.eat(')'):
                while True:
                    if p.eat('...'): va = True
                    else:
                        ps.append(parse_type(p)); skip_param_attrs(p)
                    if p.eat(')'): break
                    p.expect(',')
            t = ('func', t, tuple(ps), va)
        else: break
    return t

# ----------------------------------------------------------------- values
# value forms: ('reg', name) ('glob', name) ('int', v) ('null',) ('undef',) ('zero',)
#              ('cexpr', op, ...) ('agg', [(type,val)...]) ('str', bytes)
def parse_value(p, ty):
    x = p.next()
    if x[0] == '%': return ('reg', x[1:].strip('"'))
    if x[0] == '@': return ('glob', x[1:].strip('"'))
    if re.fullmatch(r'-?[0-9]+', x): return ('int', int(x))
    if x == 'true': return ('int', 1)
    if x == 'false': return ('int', 0)
    if x == 'null': return ('null',)
    if x in ('undef', 'poison'): return ('undef',)
    if x == 'zeroinitializer': return ('zero',)
    if x.startswith('c"'):
        s = x[2:-1]; b = bytearray(); i = 0
        while i < len(s):
            if s[i] == '\\':
                if s[i+1] == '\\': b.append(92); i += 2
                else: b.append(int(s[i+1:i+3], 16)); i += 3
            else: b.append(ord(s[i])); i += 1
        return ('str', bytes(b))
    if x in ('{', '['):
        close = '}' if x == '{' else ']'
        els = []
        if not p.eat(close):
            while True:
                t = parse_type(p); v = parse_value(p, t); els.append((t, v))
                if p.eat(close): break
                p.expect(',')
        return ('agg', els)
    if x == '<':  # packed struct constant <{ ... }>
        p.expect('{'); els = []
        if not p.eat('}'):
            while True:
                t = parse_type(p); v = parse_value(p, t); els.append((t, v))
                if p.eat('}'): break
                p.expect(',')
        p.expect('>')
        return ('agg', els)
    if x == 'getelementptr':
        p.eat('inbounds'); p.expect('(')
        bt = parse_type(p); p.expect(',')
        pt = parse_type(p); pv = parse_value(p, pt)
        idx = []
        while p.eat(','):
            p.eat('inrange')
            it = parse_type(p); iv = parse_value(p, it); idx.append((it, iv))
        p.expect(')')
        return ('cexpr', 'gep', bt, pt, pv, idx)
    if x in ('bitcast', 'ptrtoint', 'inttoptr', 'trunc', 'zext', 'sext', 'addrspacecast'):
        p.expect('('); ft = parse_type(p); fv = parse_value(p, ft); p.expect('to'); tt = parse_type(p); p.expect(')')
        return ('cexpr', x, ft, fv, tt)
    if x in ('add', 'sub', 'mul', 'and', 'or', 'xor', 'shl', 'lshr'):
        while p.peek() in ('nuw', 'nsw', 'exact'): p.next()
        p.expect('('); t1 = parse_type(p); v1 = parse_value(p, t1); p.expect(','); t2 = parse_type(p); v2 = parse_value(p, t2); p.expect(')')
        return ('cexpr', 'bin', x, t1, v1, v2)
    raise SyntaxError("value? %r in %r" % (x, ' '.join(p.t)))

# ----------------------------------------------------------------- module
class Func:
    def __init__(self): self.blocks = []; self.params = []; self.name = None; self.ret = None; self.vararg = False; self.defined = False
class Block:
    def __init__(self, name): self.name = name; self.ins = []
class Module:
    def __init__(self):
        self.types = collections.OrderedDict()
        self.globals = collections.OrderedDict()
        self.funcs = collections.OrderedDict()

def strip_meta(toks):
    # drop trailing ", !x !n" metadata and "#n" attribute groups
    out = []
    i = 0
    while i < len(toks):
        t = toks[i]
        if t == ',' and i+1 < len(toks) and toks[i+1].startswith('!'):
            i += 3 if (i+2 < len(toks) and toks[i+2].startswith('!')) else 2
            continue
        if t.startswith('#') and re.fullmatch(r'#[0-9]+', t):
            i += 1; continue
        out.append(t); i += 1
    return out

FN_ATTR_WORDS = {'dso_local','local_unnamed_addr','unnamed_addr','internal','private','external','hidden',
                 'linkonce_odr','weak','weak_odr','available_externally','common','dso_preemptable','protected','default',
                 'noundef','noalias','nonnull','signext','zeroext','fastcc','ccc','tail','notail','musttail','nofree','nsw','nuw'}

def parse_call(p):
    # after 'call' / 'invoke'; returns (retty, callee, [(ty,val)...])
    while p.peek() in FN_ATTR_WORDS or p.peek() in ('align', 'dereferenceable', 'dereferenceable_or_null'):
        w = p.next()
        if w == 'align': p.next()
        elif w.startswith('dereferenceable'):
            p.expect('('); p.next(); p.expect(')')
    rt = parse_type(p)
    # rt may be a full function type for varargs: "i32 (i8*, ...)"  -> callee follows
    callee = parse_value(p, rt)
    p.expect('(')
    args = []
    if not p.eat(')'):
        while True:
            at = parse_type(p); skip_param_attrs(p); av = parse_value(p, at); args.append((at, av))
            if p.eat(')'): break
            p.expect(',')
    if rt[0] == 'func': rt = rt[1]
    return rt, callee, args

def parse_module(text):
    M = Module()
    lines = text.split('\n')
    i = 0
    cur = None; blk = None
    while i < len(lines):
        ln = lines[i]; i += 1
        s = ln.strip()
        if not s or s.startswith(';'): continue
        if cur is None:
            if s.startswith('source_filename') or s.startswith('target ') or s.startswith('attributes ') or s.startswith('!') or s.startswith('$'):
                continue
            if s.startswith('%') and ' = type ' in s:
                toks = tokenize(s); p = P(toks)
                nm = p.next()[1:].strip('"'); p.expect('='); p.expect('type')
                M.types[nm] = parse_type(p); continue
            if s.startswith('@'):
                toks = strip_meta(tokenize(s)); p = P(toks)
                nm = p.next()[1:].strip('"'); p.expect('=')
                g = {'name': nm, 'tls': False, 'const': False, 'init': None, 'external': False, 'internal': False}
                while True:
                    w = p.peek()
                    if w in ('global', 'constant'): p.next(); g['const'] = (w == 'constant'); break
                    if w == 'thread_local':
                        p.next(); g['tls'] = True
                        if p.eat('('): p.next(); p.expect(')')
                    elif w == 'external': p.next(); g['external'] = True
                    elif w in ('internal', 'private'): p.next(); g['internal'] = True
                    elif w == 'alias': raise SyntaxError('alias unsupported')
                    else: p.next()
                g['type'] = parse_type(p)
                if not g['external'] and not p.done() and p.peek() != ',':
                    g['init'] = parse_value(p, g['type'])
                M.globals[nm] = g; continue
            if s.startswith('declare') or s.startswith('define'):
                toks = strip_meta(tokenize(s)); p = P(toks)
                kind = p.next()
                f = Func(); f.defined = (kind == 'define'); f.internal = False
                while p.peek() in FN_ATTR_WORDS or p.peek() in ('align', 'dereferenceable', 'dereferenceable_or_null'):
                    w = p.next()
                    if w in ('internal', 'private'): f.internal = True
                    if w == 'align': p.next()
                    elif w.startswith('dereferenceable'):
                        p.expect('('); p.next(); p.expect(')')
                f.ret = parse_type(p)
                f.name = p.next()[1:].strip('"')
                p.expect('(')
                if not p.eat(')'):
                    while True:
                        if p.eat('...'): f.vararg = True
                        else:
                            t = parse_type(p); skip_param_attrs(p)
                            nm = None
                            if p.peek() and p.peek()[0] == '%': nm = p.next()[1:]
                            f.params.append((t, nm))
                        if p.eat(')'): break
                        p.expect(',')
                M.funcs[f.name] = f
                if f.defined:
                    cur = f; blk = None
                    # unnamed params are %0..%n-1, entry block is %n
                    k = 0
                    ps = []
                    for (t, nm) in f.params:
                        if nm is None: nm = str(k); k += 1
                        elif nm.isdigit(): k = int(nm) + 1
                        ps.append((t, nm))
                    f.params = ps
                    f.entry_implicit = str(k)
                continue
            raise SyntaxError("toplevel? " + s)
        else:
            if s == '}':
                cur = None; continue
            m = re.match(r'^([-a-zA-Z$._0-9]+):', s)
            if m:
                blk = Block(m.group(1)); cur.blocks.append(blk); continue
            if blk is None:
                blk = Block(cur.entry_implicit); cur.blocks.append(blk)
            # switch may span multiple lines
            if s.startswith('switch') and s.endswith('['):
                while not lines[i].strip().startswith(']'):
                    s += ' ' + lines[i].strip(); i += 1
                s += ' ]'; i += 1
            toks = strip_meta(tokenize(s))
            blk.ins.append(parse_instr(P(toks)))
    return M

def parse_instr(p):
    res = None
    if p.peek(1) == '=':
        res = p.next()[1:].strip('"'); p.next()
    op = p.next()
    I = {'res': res, 'op': op}
    if op in ('tail', 'notail', 'musttail'):
        op = p.next(); I['op'] = op
    if op == 'ret':
        t = parse_type(p); I['ty'] = t
        I['val'] = None if t == ('void',) else parse_value(p, t)
    elif op == 'br':
        if p.peek() == 'label':
            p.next(); I['dest'] = p.next()[1:]
        else:
            t = parse_type(p); I['cond'] = parse_value(p, t); p.expect(','); p.expect('label'); I['t'] = p.next()[1:]; p.expect(','); p.expect('label'); I['f'] = p.next()[1:]
    elif op == 'switch':
        t = parse_type(p); I['ty'] = t; I['val'] = parse_value(p, t); p.expect(','); p.expect('label'); I['default'] = p.next()[1:]
        p.expect('['); cases = []
        while not p.eat(']'):
            ct = parse_type(p); cv = parse_value(p, ct); p.expect(','); p.expect('label'); cases.append((cv, p.next()[1:]))
        I['cases'] = cases
    elif op == 'unreachable': pass
    elif op in ('add','sub','mul','udiv','sdiv','urem','srem','and','or','xor','shl','lshr','ashr'):
        while p.peek() in ('nuw','nsw','exact'): p.next()
        t = parse_type(p); I['ty'] = t; I['a'] = parse_value(p, t); p.expect(','); I['b'] = parse_value(p, t)
    elif op == 'icmp':
        I['pred'] = p.next(); t = parse_type(p); I['ty'] = t; I['a'] = parse_value(p, t); p.expect(','); I['b'] = parse_value(p, t)
    elif op == 'select':
        ct = parse_type(p); I['c'] = parse_value(p, ct); p.expect(','); t = parse_type(p); I['ty'] = t; I['a'] = parse_value(p, t); p.expect(','); t2 = parse_type(p); I['b'] = parse_value(p, t2)
    elif op == 'phi':
        t = parse_type(p); I['ty'] = t; inc = []
        while True:
            p.expect('['); v = parse_value(p, t); p.expect(','); b = p.next()[1:]; p.expect(']'); inc.append((v, b))
            if not p.eat(','): break
        I['inc'] = inc
    elif op == 'alloca':
        t = parse_type(p); I['ty'] = t; I['n'] = None
        if p.eat(','):
            if p.peek() == 'align': p.next(); p.next()
            else:
                nt = parse_type(p); I['n'] = parse_value(p, nt)
    elif op == 'load':
        I['atomic'] = p.eat('atomic'); I['volatile'] = p.eat('volatile')
        t = parse_type(p); I['ty'] = t; p.expect(','); pt = parse_type(p); I['ptr'] = parse_value(p, pt); I['pty'] = pt
        if I['atomic']:
            if p.peek() and p.peek().startswith('syncscope'): p.next(); p.expect('('); p.next(); p.expect(')')
            I['ord'] = p.next()
    elif op == 'store':
        I['atomic'] = p.eat('atomic'); I['volatile'] = p.eat('volatile')
        t = parse_type(p); I['ty'] = t; I['val'] = parse_value(p, t); p.expect(','); pt = parse_type(p); I['ptr'] = parse_value(p, pt); I['pty'] = pt
        if I['atomic']: I['ord'] = p.next()
    elif op == 'cmpxchg':
        p.eat('weak'); p.eat('volatile')
        pt = parse_type(p); I['pty'] = pt; I['ptr'] = parse_value(p, pt); p.expect(',')
        t = parse_type(p); I['ty'] = t; I['cmp'] = parse_value(p, t); p.expect(','); t2 = parse_type(p); I['new'] = parse_value(p, t2)
        I['ord'] = p.next(); I['ford'] = p.next()
    elif op == 'atomicrmw':
        p.eat('volatile'); I['rmw'] = p.next(); pt = parse_type(p); I['pty'] = pt; I['ptr'] = parse_value(p, pt); p.expect(','); t = parse_type(p); I['ty'] = t; I['val'] = parse_value(p, t); I['ord'] = p.next()
    elif op == 'fence':
        I['ord'] = p.next()
    elif op == 'getelementptr':
        p.eat('inbounds'); bt = parse_type(p); p.expect(','); pt = parse_type(p); I['bty'] = bt; I['pty'] = pt; I['ptr'] = parse_value(p, pt)
        idx = []
        while p.eat(','):
            it = parse_type(p); idx.append((it, parse_value(p, it)))
        I['idx'] = idx
    elif op in ('bitcast','ptrtoint','inttoptr','trunc','zext','sext'):
        ft = parse_type(p); I['fty'] = ft; I['val'] = parse_value(p, ft); p.expect('to'); I['ty'] = parse_type(p)
    elif op == 'extractvalue':
        t = parse_type(p); I['aty'] = t; I['agg'] = parse_value(p, t); ix = []
        while p.eat(','): ix.append(int(p.next()))
        I['ix'] = ix
    elif op == 'insertvalue':
        t = parse_type(p); I['aty'] = t; I['agg'] = parse_value(p, t); p.expect(','); et = parse_type(p); I['ety'] = et; I['val'] = parse_value(p, et); ix = []
        while p.eat(','): ix.append(int(p.next()))
        I['ix'] = ix
    elif op == 'call':
        rt, callee, args = parse_call(p); I['ty'] = rt; I['callee'] = callee; I['args'] = args
    elif op == 'freeze':
        t = parse_type(p); I['ty'] = t; I['val'] = parse_value(p, t)
    elif op == 'va_arg':
        pt = parse_type(p); I['ptr'] = parse_value(p, pt); p.expect(','); I['ty'] = parse_type(p)
    else:
        raise SyntaxError("instr? %s in %r" % (op, ' '.join(p.t)))
    return I
