/* C12: the futex semaphore never loses a post.
 * Real unit: platform/linux/src/nsync_semaphore_futex.c, run by CBMC threads (1 waiter + NPOST posters) against a
 * modelled futex(2): value check and sleep are atomic; FUTEX_WAKE wakes the sleeper if there is one; absolute
 * timeouts on a virtual clock; up to KFAULT injected early returns (EINTR, spurious 0, premature ETIMEDOUT). */
#include "nsync_cpp.h"
#include "platform.h"
#include "compiler.h"
#include "cputype.h"
#include "nsync.h"
#include "sem.h"
#include "atomic.h"

#ifndef NPOST
#define NPOST 1
#endif
#ifndef NWAIT
#define NWAIT 1      /* number of successive waits by the waiter thread */
#endif
#ifndef KFAULT
#define KFAULT 1
#endif

int nondet_int (void);
long nondet_long (void);
_Bool nondet_bool (void);

static nsync_semaphore sem;

#include "c12_model.h"
int *sem_word (void) { return (int *) &sem; }

static void poster (void) {
	__CPROVER_atomic_begin (); ghost_posts_started++; __CPROVER_atomic_end ();
	nsync_mu_semaphore_v (&sem);
	__CPROVER_atomic_begin (); ghost_posts_done++; others_done++; __CPROVER_atomic_end ();
}

static int waiter_finished;
static void waiter (void) {
	int k;
	for (k = 0; k < NWAIT; k++) {
		/* only the untimed wait here: CBMC's thread encoding rejects the timed one ("pointer handling for
		   concurrency is unsound": ts = &ts_buf); the timed wait is checked under interference in sem_timed.c */
		nsync_mu_semaphore_p (&sem);
		__CPROVER_atomic_begin ();
		ghost_waits_ok++;
		__CPROVER_assert (ghost_waits_ok <= ghost_posts_started, "a wait never returns success without a post");
		__CPROVER_atomic_end ();
	}
	__CPROVER_atomic_begin (); waiter_finished = 1; __CPROVER_atomic_end ();
}

void harness (void) {
	nsync_mu_semaphore_init (&sem);
	__CPROVER_ASYNC_1: waiter ();
#if NPOST >= 1
	__CPROVER_ASYNC_2: poster ();
#endif
#if NPOST >= 2
	__CPROVER_ASYNC_3: poster ();
#endif
	__CPROVER_atomic_begin ();
	__CPROVER_assume (waiter_finished && others_done == NPOST);
	/* everything has finished: the count is exactly the posts not consumed (none lost, none invented) */
	__CPROVER_assert (*sem_word () == ghost_posts_done - ghost_waits_ok, "final count == posts - successful waits");
	__CPROVER_assert (*sem_word () >= 0, "count never negative");
#ifdef WITNESS
	__CPROVER_assert (0, "WITNESS reachable");
#endif
	__CPROVER_atomic_end ();
}
