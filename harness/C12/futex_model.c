/* Modelled futex(2) and virtual clock for C12 (separate unit so that syscall can be given its real 7-argument shape). */
#include <time.h>
#include <errno.h>
#include <stddef.h>
#include <linux/futex.h>
#include <sys/syscall.h>
#include "c12_model.h"
int nondet_int (void); long nondet_long (void);
/* ---- virtual clock ---- */
long now_s, now_ns;
int time_le (long as, long an, long bs, long bn) { return as < bs || (as == bs && an <= bn); }
static void clock_advance (void) {
	long s = nondet_long (), ns = nondet_long ();
	__CPROVER_assume (ns >= 0 && ns < 1000000000);
	__CPROVER_assume (time_le (now_s, now_ns, s, ns));
	now_s = s; now_ns = ns;
}
int clock_gettime (clockid_t c, struct timespec *ts) {
	(void) c;
	__CPROVER_atomic_begin ();
	clock_advance ();
	ts->tv_sec = now_s; ts->tv_nsec = now_ns;
	__CPROVER_atomic_end ();
	return 0;
}

/* ---- futex model ---- */
int faults_left = KFAULT;
unsigned wake_gen;         /* number of FUTEX_WAKE calls so far */
int sleeping;              /* the waiter is inside FUTEX_WAIT */
int others_done;           /* posters that have finished */
int ghost_posts_started, ghost_posts_done, ghost_waits_ok;

extern int *sem_word (void);

long syscall (long nr, int *uaddr, int op, int val, const struct timespec *ts, int *uaddr2, int val3) {
	__CPROVER_assert (nr == SYS_futex, "only futex is called");
	__CPROVER_assert (uaddr == sem_word (), "futex on the semaphore word");
	if ((op & FUTEX_CMD_MASK) == FUTEX_WAKE) {
		__CPROVER_atomic_begin ();
		wake_gen++;
		__CPROVER_atomic_end ();
		return sleeping ? 1 : 0;
	}
	__CPROVER_assert ((op & FUTEX_CMD_MASK) == FUTEX_WAIT_BITSET && (op & FUTEX_CLOCK_REALTIME) != 0, "absolute realtime wait");
	{
		unsigned gen0 = 0;
		int outcome;
		int phase2 = 0;
		long ret = 0;
		__CPROVER_atomic_begin ();
		if (ts != NULL && (ts->tv_sec < 0 || ts->tv_nsec < 0 || ts->tv_nsec >= 1000000000)) {
			errno = EINVAL;                 /* futex(2): invalid timeout */
			ret = -1;
		} else if (*uaddr != val) {             /* value check is atomic with going to sleep */
			errno = EAGAIN;
			ret = -1;
		} else {
			outcome = nondet_int ();
			__CPROVER_assume (outcome >= 0 && outcome <= 5);
			if (outcome == 1 || outcome == 2 || outcome == 3) {   /* injected early returns */
				__CPROVER_assume (faults_left > 0);
				faults_left--;
				if (outcome == 1) { errno = EINTR; ret = -1; }
				else if (outcome == 2) { ret = 0; }                        /* spurious wake-up */
				else { __CPROVER_assume (ts != NULL); errno = ETIMEDOUT; ret = -1; }  /* premature timeout: clock not advanced */
			} else if (outcome == 4) {              /* the deadline is reached while asleep */
				__CPROVER_assume (ts != NULL);
				clock_advance ();
				__CPROVER_assume (time_le (ts->tv_sec, ts->tv_nsec, now_s, now_ns));
				errno = ETIMEDOUT; ret = -1;
			} else {
				gen0 = wake_gen;
				sleeping = 1;
				phase2 = (outcome == 0) ? 1 : 2;
				if (phase2 == 2) { __CPROVER_assume (ts == NULL); }
			}
		}
		__CPROVER_atomic_end ();
		if (phase2 == 1) {                      /* woken by a later FUTEX_WAKE */
			__CPROVER_atomic_begin ();
			__CPROVER_assume (wake_gen != gen0);
			sleeping = 0;
			__CPROVER_atomic_end ();
		} else if (phase2 == 2) {
			/* sleeps forever - only a real execution if no wake ever comes and no timeout is pending; then every
			   poster has finished and the state is final: a pending post here is a LOST POST */
			__CPROVER_atomic_begin ();
			__CPROVER_assume (others_done == NPOST && wake_gen == gen0);
			__CPROVER_assert (*uaddr == 0, "waiter asleep forever only if no post is pending (no lost post)");
			__CPROVER_assert (ghost_posts_done == ghost_waits_ok, "waiter asleep forever only if every post was consumed");
			__CPROVER_atomic_end ();
			__CPROVER_assume (0);
		}
		return ret;
	}
}

