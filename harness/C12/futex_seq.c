/* syscall() with its real (variadic) shape cannot be defined next to <unistd.h>'s prototype with named parameters;
 * this unit gives it the 7-argument futex shape and forwards to the model in the harness. */
#include <time.h>
#include <stddef.h>
#include <sys/syscall.h>
long vf_futex (int *uaddr, int op, int val, const struct timespec *ts);
long syscall (long nr, int *uaddr, int op, int val, const struct timespec *ts, int *uaddr2, int val3) {
	(void) uaddr2; (void) val3;
	if (nr != SYS_futex) { return -1; }
	return vf_futex (uaddr, op, val, ts);
}
