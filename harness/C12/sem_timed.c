/* C12 / C15: nsync_mu_semaphore_p_with_deadline (and nsync_mu_semaphore_p) of the real futex semaphore, run
 * sequentially under INTERFERENCE: before every atomic access and inside the futex wait the environment (posters)
 * may increment the semaphore word (at most MAXPOST times in total), the futex wait may return early KFAULT times
 * (EINTR, spurious 0, premature ETIMEDOUT), and the virtual clock advances arbitrarily.
 * The deadline is any timespec (C15: including instants before the epoch unless -DNONNEG_DEADLINE). */
#include "vf_harness.h"
#include "nsync_cpp.h"
#include "platform.h"
#include "compiler.h"
#include "cputype.h"
#include "nsync.h"
#include "sem.h"
#include "atomic.h"

#ifndef MAXPOST
#define MAXPOST 2
#endif
#ifndef KFAULT
#define KFAULT 2
#endif

static nsync_semaphore sem;
static int *word (void) { return (int *) &sem; }

static long now_s, now_ns;
static int posts_left = MAXPOST, posts_made, faults_left = KFAULT;
static int clock_reads, futex_waits, futex_wakes;
static int deadline_reached;   /* a futex wait ended with ETIMEDOUT at or after the (clamped) deadline */
static int step;

static int time_le (long as, long an, long bs, long bn) { return as < bs || (as == bs && an <= bn); }

static void clock_advance (void) {
	VF_IN (long, adv_s); VF_IN (long, adv_ns);
	VF_ASSUME (adv_ns >= 0 && adv_ns < 1000000000 && time_le (now_s, now_ns, adv_s, adv_ns));
	now_s = adv_s; now_ns = adv_ns;
}

/* interference: a poster's V (increment, then FUTEX_WAKE) */
void vf_env_step (void *p) {
	VF_IN (uint8_t, env_post);
	if (p == (void *) word () && env_post != 0 && posts_left > 0) {
		posts_left--; posts_made++;
		(*word ())++;
	}
}

int clock_gettime (clockid_t c, struct timespec *ts) {
	(void) c;
	clock_advance ();
	clock_reads++;
	ts->tv_sec = now_s; ts->tv_nsec = now_ns;
	return 0;
}

long vf_futex (int *uaddr, int op, int val, const struct timespec *ts) {
	VF_ASSERT (uaddr == word (), "futex on the semaphore word");
	if ((op & FUTEX_CMD_MASK) == FUTEX_WAKE) { futex_wakes++; return 0; }
	VF_ASSERT ((op & FUTEX_CMD_MASK) == FUTEX_WAIT_BITSET && (op & FUTEX_CLOCK_REALTIME) != 0, "absolute realtime wait");
	VF_ASSERT (!deadline_reached, "after a wait that ended at or after the deadline the function returns instead of waiting again (termination)");
	futex_waits++;
	vf_env_step (uaddr);
	if (ts != NULL && (ts->tv_sec < 0 || ts->tv_nsec < 0 || ts->tv_nsec >= 1000000000)) { errno = EINVAL; return -1; }   /* futex(2) */
	if (*uaddr != val) { errno = EAGAIN; return -1; }
	{
		VF_IN (uint8_t, outcome);
		VF_ASSUME (outcome <= 4);
		if (outcome >= 1 && outcome <= 3) {
			VF_ASSUME (faults_left > 0);
			faults_left--;
			if (outcome == 1) { errno = EINTR; return -1; }
			if (outcome == 2) { return 0; }
			VF_ASSUME (ts != NULL);
			errno = ETIMEDOUT; return -1;          /* premature: clock not advanced */
		}
		if (outcome == 4) {                            /* deadline reached while asleep */
			VF_ASSUME (ts != NULL);
			clock_advance ();
			VF_ASSUME (time_le (ts->tv_sec, ts->tv_nsec, now_s, now_ns));
			deadline_reached = 1;
			errno = ETIMEDOUT; return -1;
		}
		/* outcome 0: asleep until a poster increments and wakes.  If no poster is left the thread sleeps for ever,
		   which is a legitimate execution only without a deadline (the path ends here). */
		VF_ASSUME (posts_left > 0);
		posts_left--; posts_made++;
		(*word ())++;
		return 0;
	}
}

void h_timed (void) {
	VF_IN (long, dl_s); VF_IN (long, dl_ns);
	VF_IN (uint8_t, initial);
	VF_IN (uint8_t, no_deadline);
	nsync_time dl;
	int r, before;
	VF_ASSUME (dl_ns >= 0 && dl_ns < 1000000000);
#ifdef NONNEG_DEADLINE
	VF_ASSUME (dl_s >= 0);
#endif
	VF_ASSUME (initial <= 2);
	nsync_mu_semaphore_init (&sem);
	*word () = initial;
	dl.tv_sec = dl_s; dl.tv_nsec = dl_ns;
	if (no_deadline) { dl = nsync_time_no_deadline; }
	before = initial;
#ifdef C15_EXPIRED
	VF_IN (long, start_s); VF_IN (long, start_ns);
	VF_ASSUME (start_ns >= 0 && start_ns < 1000000000);
	now_s = start_s; now_ns = start_ns;          /* the clock at the call: any instant, before or after the deadline */
	int expired_at_call = !no_deadline && time_le (dl.tv_sec, dl.tv_nsec, now_s, now_ns);
#endif
	r = nsync_mu_semaphore_p_with_deadline (&sem, dl);
	VF_ASSERT (r == 0 || r == ETIMEDOUT, "timed wait returns 0 or ETIMEDOUT");
#ifdef C15_EXPIRED
	if (expired_at_call && before == 0 && posts_made == 0) {
		VF_ASSERT (r == ETIMEDOUT, "an already expired deadline produces the timeout result when no post happened");
	}
#endif
	if (r == 0) {
		VF_ASSERT (before + posts_made >= 1, "success only with a post");
		VF_ASSERT (*word () == before + posts_made - 1, "success consumes exactly one post");
	} else {
		VF_ASSERT (!no_deadline, "no_deadline never times out");
		VF_ASSERT (time_le (dl.tv_sec, dl.tv_nsec, now_s, now_ns), "ETIMEDOUT only at or after the deadline");
		VF_ASSERT (*word () == before + posts_made, "timeout consumes nothing");
	}
	VF_WITNESS ();
}

void h_untimed (void) {
	VF_IN (uint8_t, initial);
	int before;
	VF_ASSUME (initial <= 2);
	nsync_mu_semaphore_init (&sem);
	*word () = initial;
	before = initial;
	nsync_mu_semaphore_p (&sem);
	VF_ASSERT (before + posts_made >= 1, "success only with a post");
	VF_ASSERT (*word () == before + posts_made - 1, "success consumes exactly one post");
	VF_WITNESS ();
}

void h_post (void) {
	VF_IN (uint32_t, initial);
	VF_ASSUME (initial < 0x7ffffff0u);
	nsync_mu_semaphore_init (&sem);
	*word () = initial;
	nsync_mu_semaphore_v (&sem);
	VF_ASSERT ((uint32_t) *word () == initial + posts_made + 1, "post adds exactly one");
	VF_ASSERT (futex_wakes == 1, "post issues a futex wake after the increment");
	VF_WITNESS ();
}

#ifdef VF_REPLAY
int main (void) { HFUNC (); return 0; }
#endif
