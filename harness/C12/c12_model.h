#ifndef C12_MODEL_H_
#define C12_MODEL_H_
#ifndef NPOST
#define NPOST 1
#endif
#ifndef KFAULT
#define KFAULT 1
#endif
extern long now_s, now_ns;
extern int faults_left, sleeping, others_done, ghost_posts_started, ghost_posts_done, ghost_waits_ok;
extern unsigned wake_gen;
int time_le (long as, long an, long bs, long bn);
int *sem_word (void);
#endif
