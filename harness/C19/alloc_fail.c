/* C19: allocation failure is reported, not crashed on, by nsync_note_new / nsync_counter_new; existing objects
 * (the intended parent) stay unchanged and usable.  CBMC: every malloc may fail independently
 * (--malloc-may-fail --malloc-fail-null); the harness forces success only for the set-up objects. */
#include "vf_harness.h"
#include "nsync_cpp.h"
#include "platform.h"
#include "compiler.h"
#include "cputype.h"
#include "nsync.h"
#include "dll.h"
#include "sem.h"
#include "wait_internal.h"
#include "common.h"
#include "atomic.h"

static long now_s = 1000, now_ns;
int clock_gettime (clockid_t c, struct timespec *ts) { (void) c; ts->tv_sec = now_s; ts->tv_nsec = now_ns; return 0; }
void nsync_yield_ (void) { }
void nsync_panic_ (const char *s) { (void) s; VF_ASSERT (0, "nsync_panic_ reached"); }

/* malloc under harness control: fail_mask bit k set => the k-th allocation fails */
static unsigned alloc_count, fail_mask;
#undef malloc
#ifndef VF_REPLAY
void *vf_malloc (size_t n) { void *p; if ((fail_mask >> alloc_count++) & 1) { return NULL; } p = malloc (n); __CPROVER_assume (p != NULL); return p; }
#else
void *vf_malloc (size_t n) { if ((fail_mask >> alloc_count++) & 1) { return NULL; } return malloc (n); }
#endif

static int list_len (nsync_dll_list_ l) { int n = 0; nsync_dll_element_ *p; for (p = nsync_dll_first_ (l); p != NULL; p = nsync_dll_next_ (l, p)) { n++; } return n; }

void h_note (void) {
	VF_IN (unsigned, mask);
	VF_IN (long, dl_s); VF_IN (uint8_t, dl_kind);          /* 0: no deadline, 1: future, 2: past */
	VF_IN (uint8_t, parent_kind);                          /* 0: no parent, 1: live parent, 2: parent with one child, 3: notified parent */
	nsync_note parent = NULL, sib = NULL, n, n2;
	nsync_time dl;
	struct nsync_note_s_ snap;
	VF_ASSUME (dl_kind <= 2 && parent_kind <= 3);
#ifdef LIGHT
	VF_ASSUME (dl_kind <= 1 && parent_kind <= 2);   /* no expiry-driven or explicit notification: keeps nsync_mu_wait out of the query */
#endif
	VF_ASSUME (dl_s >= 0 && dl_s < 1000000);
#ifdef LIGHT
	dl_s = 5;                                        /* concrete future deadline: the expiry-driven notify path is pruned by constant propagation */
#endif
	dl = dl_kind == 0 ? nsync_time_no_deadline : dl_kind == 1 ? nsync_time_s_ns (now_s + 1 + dl_s, 0) : nsync_time_s_ns (dl_s % 1000, 0);
	fail_mask = 0;
	if (parent_kind >= 1) { parent = nsync_note_new (NULL, nsync_time_no_deadline); VF_ASSERT (parent != NULL, "setup"); }
	if (parent_kind == 2) { sib = nsync_note_new (parent, nsync_time_no_deadline); VF_ASSERT (sib != NULL && list_len (parent->children) == 1, "setup child"); }
	if (parent_kind == 3) { nsync_note_notify (parent); VF_ASSERT (nsync_note_is_notified (parent), "setup notified"); }
	if (parent != NULL) { snap = *parent; }
	/* the call under test: each of its allocations may fail */
	alloc_count = 0; fail_mask = mask;
	n = nsync_note_new (parent, dl);
	VF_ASSERT (alloc_count == 1, "nsync_note_new performs exactly one allocation");
	if (mask & 1) {
		VF_ASSERT (n == NULL, "allocation failure is reported as NULL");
		if (parent != NULL) {
			VF_ASSERT (parent->children == snap.children && parent->waiters == snap.waiters && parent->parent == snap.parent &&
				   parent->disconnecting == snap.disconnecting && parent->expiry_time_valid == snap.expiry_time_valid &&
				   nsync_time_cmp (parent->expiry_time, snap.expiry_time) == 0 &&
				   ATM_LOAD (&parent->notified) == ATM_LOAD (&snap.notified) &&
				   ATM_LOAD (&parent->note_mu.word) == 0 && parent->note_mu.waiters == NULL, "parent unchanged and unlocked after a failed construction");
			VF_ASSERT (list_len (parent->children) == (parent_kind == 2 ? 1 : 0), "parent's children list intact");
		}
	} else {
		VF_ASSERT (n != NULL, "success when memory is available");
		if (parent != NULL && parent_kind != 3 && dl_kind != 2) {
			VF_ASSERT (n->parent == parent && list_len (parent->children) == (parent_kind == 2 ? 2 : 1), "child linked under the parent");
		}
	}
	/* parent still usable: a second construction with memory available succeeds and links */
	if (parent != NULL) {
		fail_mask = 0;
		n2 = nsync_note_new (parent, nsync_time_no_deadline);
		VF_ASSERT (n2 != NULL, "parent usable after the failure");
		if (parent_kind != 3) { VF_ASSERT (n2->parent == parent, "later child linked"); }
#ifndef LIGHT
		nsync_note_notify (parent);
		VF_ASSERT (nsync_note_is_notified (parent) && nsync_note_is_notified (n2), "parent can still be notified and reaches its children");
		if (sib != NULL) { VF_ASSERT (nsync_note_is_notified (sib), "existing child still reached"); }
#endif
	}
	VF_WITNESS ();
}

void h_counter (void) {
	VF_IN (unsigned, mask);
	VF_IN (uint32_t, v);
	nsync_counter c;
	alloc_count = 0; fail_mask = mask;
	c = nsync_counter_new (v);
	VF_ASSERT (alloc_count == 1, "nsync_counter_new performs exactly one allocation");
	if (mask & 1) { VF_ASSERT (c == NULL, "allocation failure is reported as NULL"); }
	else { VF_ASSERT (c != NULL && nsync_counter_value (c) == v, "counter constructed with its value"); }
	VF_WITNESS ();
}

#ifdef VF_REPLAY
int main (void) { HFUNC (); return 0; }
#endif
