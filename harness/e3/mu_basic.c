/* C01/C02 basic scenarios: writers and readers on one mutex with shadow occupancy counters. */
#include "nsync.h"
#include "vf_api.h"
nsync_mu mu;
int writers, readers;
void thread_w (void) {
	nsync_mu_lock (&mu);
	writers++;
	vf_assert (writers == 1 && readers == 0);
	vf_yield ();
	vf_assert (writers == 1 && readers == 0);
	writers--;
	nsync_mu_unlock (&mu);
}
void thread_r (void) {
	nsync_mu_rlock (&mu);
	readers++;
	vf_assert (writers == 0);
	vf_yield ();
	vf_assert (writers == 0);
	readers--;
	nsync_mu_runlock (&mu);
}
void thread_try (void) {
	if (nsync_mu_trylock (&mu)) {
		writers++;
		vf_assert (writers == 1 && readers == 0);
		vf_yield ();
		writers--;
		nsync_mu_unlock (&mu);
	}
}
void thread_rtry (void) {
	if (nsync_mu_rtrylock (&mu)) {
		readers++;
		vf_assert (writers == 0);
		vf_yield ();
		readers--;
		nsync_mu_runlock (&mu);
	}
}
void final_check (void) {
	vf_assert (writers == 0 && readers == 0);
}
