/* C07: nsync_run_once runs its function exactly once and nobody returns early. */
#include "nsync.h"
#include "vf_api.h"
nsync_once onces[65];        /* onces[0] and onces[64] hash to the same internal lock/cv slot */
int runs, done;              /* for onces[0] */
int runs_b, done_b;          /* for onces[64] */

static void init_fn (void) { runs++; vf_yield (); done = 1; }
static void init_fn_arg (void *a) { (void) a; runs++; vf_yield (); done = 1; }
static void init_b (void) { runs_b++; vf_yield (); done_b = 1; }

/* the init function of onces[0] itself runs another once (onces[64]) that shares the internal lock/cv slot: completing the
   inner once broadcasts on the shared cv while the outer one is still running */
static void init_nested (void) { runs++; nsync_run_once (&onces[64], &init_b); vf_yield (); done = 1; }
void caller_nested (void) { nsync_run_once (&onces[0], &init_nested); vf_assert (done == 1 && runs == 1); }
void caller_block (void) { nsync_run_once (&onces[0], &init_fn); vf_assert (done == 1 && runs == 1); }
void caller_arg (void) { nsync_run_once_arg (&onces[0], &init_fn_arg, 0); vf_assert (done == 1 && runs == 1); }
void caller_spin (void) { nsync_run_once_spin (&onces[0], &init_fn); vf_assert (done == 1 && runs == 1); }
void caller_arg_spin (void) { nsync_run_once_arg_spin (&onces[0], &init_fn_arg, 0); vf_assert (done == 1 && runs == 1); }
void caller_other (void) { nsync_run_once (&onces[64], &init_b); vf_assert (done_b == 1 && runs_b == 1); }
void caller_twice (void) {
	nsync_run_once (&onces[0], &init_fn); vf_assert (done == 1 && runs == 1);
	nsync_run_once (&onces[0], &init_fn); vf_assert (done == 1 && runs == 1);
}
/* passive runner of onces[0]: set-up puts the word into the state "somebody won the CAS, released the internal lock and is inside f" (1);
   the same thread that completes onces[64] (shared internal lock/cv slot: its broadcast wakes waiters of onces[0] too) later finishes f and
   publishes 2 WITHOUT a broadcast (a real runner would also broadcast; the loser's 10..50 ms timed wait covers a missed one) */
void setup_running (void) { runs = 1; __atomic_store_n ((uint32_t *) &onces[0], 1, __ATOMIC_RELEASE); }
void other_then_finish (void) {
	nsync_run_once (&onces[64], &init_b);
	vf_yield ();
	done = 1;
	__atomic_store_n ((uint32_t *) &onces[0], 2, __ATOMIC_RELEASE);
}
void final_check (void) { vf_assert (runs == 1 && done == 1); }
void final_check_b (void) { vf_assert (runs == 1 && done == 1 && runs_b == 1 && done_b == 1); }
