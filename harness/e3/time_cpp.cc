/* C18, C++ build: platform/c++11/src/time_rep_timespec.cc (the unit the CMake C++ library uses) is lowered by clang++ to
 * LLVM IR, translated by seqcc (single thread, one context) and checked by CBMC against exact integer arithmetic on
 * sec*1e9+nsec, stated on the normalized pair as in harness/C18/time_arith.c.  Operands: seconds any int64 with |sec| <= 2^61
 * for add/sub, any int64 for cmp; 0 <= nsec < 1e9. */
#include "nsync_cpp.h"
#include "platform.h"
#include "compiler.h"
#include "cputype.h"
#include "nsync_time.h"

extern "C" {
void vf_assert_at (int c, int line);
void vf_assume (int c);
unsigned vf_nondet_nv (void);
}
#define vf_assert(c) vf_assert_at ((c), __LINE__)
#define NS 1000000000L
#define BOUND (((long) 1) << 61)

static long nd64 () { return (long) (((unsigned long) vf_nondet_nv () << 32) | (unsigned long) vf_nondet_nv ()); }
static nsync::nsync_time in_time (long *s, long *n) {
	*s = nd64 (); *n = (long) (vf_nondet_nv () & 0x3fffffff);
	vf_assume (*n >= 0 && *n < NS);
	return nsync::nsync_time_s_ns (*s, (unsigned) *n);
}

extern "C" void h_cpp_add () {
	long as, an, bs, bn;
	nsync::nsync_time a = in_time (&as, &an), b = in_time (&bs, &bn), r;
	vf_assume (as >= -BOUND && as <= BOUND && bs >= -BOUND && bs <= BOUND);
	long c = (an + bn >= NS);
	r = nsync::nsync_time_add (a, b);
	vf_assert (r.tv_nsec >= 0 && r.tv_nsec < NS);
	vf_assert (r.tv_sec == as + bs + c && r.tv_nsec == an + bn - c * NS);
}
extern "C" void h_cpp_sub () {
	long as, an, bs, bn;
	nsync::nsync_time a = in_time (&as, &an), b = in_time (&bs, &bn), r;
	vf_assume (as >= -BOUND && as <= BOUND && bs >= -BOUND && bs <= BOUND);
	long w = (an < bn);
	r = nsync::nsync_time_sub (a, b);
	vf_assert (r.tv_nsec >= 0 && r.tv_nsec < NS);
	vf_assert (r.tv_sec == as - bs - w && r.tv_nsec == an - bn + w * NS);
	r = nsync::nsync_time_sub (nsync::nsync_time_add (a, b), b);
	vf_assert (r.tv_sec == as && r.tv_nsec == an);
}
extern "C" void h_cpp_cmp () {
	long as, an, bs, bn;
	nsync::nsync_time a = in_time (&as, &an), b = in_time (&bs, &bn);
	int ab = nsync::nsync_time_cmp (a, b), ba = nsync::nsync_time_cmp (b, a);
	int gt = (as > bs) || (as == bs && an > bn), lt = (as < bs) || (as == bs && an < bn);
	vf_assert ((ab > 0) == gt && (ab < 0) == lt && (ab == 0) == (!gt && !lt));
	vf_assert ((ab > 0) == (ba < 0) && (ab == 0) == (ba == 0));
	if (as >= 0) {
		vf_assert (nsync::nsync_time_cmp (nsync::nsync_time_zero, a) <= 0);
		vf_assert (nsync::nsync_time_cmp (a, nsync::nsync_time_no_deadline) <= 0);
	}
}
