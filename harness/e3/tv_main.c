/* real-library side of the translator validation */
#include <stdio.h>
#include <stdlib.h>
void vf_event (unsigned long a, unsigned long b) { printf ("EV %lu %lu\n", a, b); }
void vf_assert_at (int c, int line) { if (!c) { printf ("ASSERT %d\n", line); exit (99); } }
void vf_assume (int c) { (void) c; }
void vf_yield (void) { }
unsigned vf_nondet (void) { return 0; }
unsigned vf_nondet_nv (void) { return 0; }
unsigned vf_now_ge (long s, long ns) { (void) s; (void) ns; return 1; }
extern void tv_script (void);
int main (void) { tv_script (); return 0; }
