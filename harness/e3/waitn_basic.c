/* C11 / C13: nsync_wait_n over notes, counters and condition variables. */
#include "nsync_cpp.h"
#include "platform.h"
#include "compiler.h"
#include "cputype.h"
#include "nsync.h"
#include "dll.h"
#include "sem.h"
#include "wait_internal.h"
#include "vf_api.h"
#include <errno.h>

nsync_mu mu;
nsync_cv cv;
nsync_note note;
nsync_counter ctr;
int flag;
int cv_signalled;

void setup (void) {
	note = nsync_note_new (0, nsync_time_no_deadline);
	ctr = nsync_counter_new (1);
	vf_assume (note != 0 && ctr != 0);
}

/* wait on {note, counter} with a solver-chosen deadline, no mutex */
void waitn_note_ctr (void) {
	struct nsync_waitable_s w0, w1;
	struct nsync_waitable_s *ws[2];
	long ds = (long) (vf_nondet () & 0xff);
	int r;
	w0.v = note; w0.funcs = &nsync_note_waitable_funcs;
	w1.v = ctr; w1.funcs = &nsync_counter_waitable_funcs;
	ws[0] = &w0; ws[1] = &w1;
	r = nsync_wait_n (0, 0, 0, nsync_time_s_ns (ds, 0), 2, ws);
	vf_assert (r >= 0 && r <= 2);
	if (r == 0) { vf_assert (nsync_note_is_notified (note)); }
	if (r == 1) { vf_assert (nsync_counter_value (ctr) == 0); }
	if (r == 2) { vf_assert (vf_now_ge (ds, 0)); }
}
/* wait on {cv, note} holding mu (write mode); the cv is "signalled for this call" when flag is set */
void waitn_cv_note (void) {
	struct nsync_waitable_s w0, w1;
	struct nsync_waitable_s *ws[2];
	long ds = (long) (vf_nondet () & 0xff);
	int r = 0;
	w0.v = &cv; w0.funcs = &nsync_cv_waitable_funcs;
	w1.v = note; w1.funcs = &nsync_note_waitable_funcs;
	ws[0] = &w0; ws[1] = &w1;
	nsync_mu_lock (&mu);
	if (!flag) {
		r = nsync_wait_n (&mu, (void (*) (void *)) &nsync_mu_lock, (void (*) (void *)) &nsync_mu_unlock, nsync_time_s_ns (ds, 0), 2, ws);
		vf_assert (r >= 0 && r <= 2);
		if (r == 0) { vf_assert (cv_signalled); }
		if (r == 1) { vf_assert (nsync_note_is_notified (note)); }
		if (r == 2) { vf_assert (vf_now_ge (ds, 0)); }
	}
	nsync_mu_unlock (&mu);
}
/* untimed variant: returns only for a ready object */
void waitn_cv_note_nodl (void) {
	struct nsync_waitable_s w0, w1;
	struct nsync_waitable_s *ws[2];
	int r;
	w0.v = &cv; w0.funcs = &nsync_cv_waitable_funcs;
	w1.v = note; w1.funcs = &nsync_note_waitable_funcs;
	ws[0] = &w0; ws[1] = &w1;
	nsync_mu_lock (&mu);
	while (!flag) {
		r = nsync_wait_n (&mu, (void (*) (void *)) &nsync_mu_lock, (void (*) (void *)) &nsync_mu_unlock, nsync_time_no_deadline, 2, ws);
		vf_assert (r == 0 || r == 1);
		if (r == 1) { vf_assert (nsync_note_is_notified (note)); break; }
	}
	nsync_mu_unlock (&mu);
}
void setup_ctr (void) { ctr = nsync_counter_new (1); vf_assume (ctr != 0); }

/* wait on {cv, counter} holding mu; solver-chosen deadline */
void waitn_cv_ctr (void) {
	struct nsync_waitable_s w0, w1;
	struct nsync_waitable_s *ws[2];
	long ds = (long) (vf_nondet () & 0xff);
	int r = 0;
	w0.v = &cv; w0.funcs = &nsync_cv_waitable_funcs;
	w1.v = ctr; w1.funcs = &nsync_counter_waitable_funcs;
	ws[0] = &w0; ws[1] = &w1;
	nsync_mu_lock (&mu);
	if (!flag) {
		r = nsync_wait_n (&mu, (void (*) (void *)) &nsync_mu_lock, (void (*) (void *)) &nsync_mu_unlock, nsync_time_s_ns (ds, 0), 2, ws);
		vf_assert (r >= 0 && r <= 2);
		if (r == 0) { vf_assert (cv_signalled); }
		if (r == 1) { vf_assert (nsync_counter_value (ctr) == 0); }
		if (r == 2) { vf_assert (vf_now_ge (ds, 0)); }
	}
	nsync_mu_unlock (&mu);
}
/* wait on the cv alone through nsync_wait_n, holding mu; solver-chosen deadline */
void waitn_cv (void) {
	struct nsync_waitable_s w0;
	struct nsync_waitable_s *ws[1];
	long ds = (long) (vf_nondet () & 0xff);
	int r = 0;
	w0.v = &cv; w0.funcs = &nsync_cv_waitable_funcs;
	ws[0] = &w0;
	nsync_mu_lock (&mu);
	if (!flag) {
		r = nsync_wait_n (&mu, (void (*) (void *)) &nsync_mu_lock, (void (*) (void *)) &nsync_mu_unlock, nsync_time_s_ns (ds, 0), 1, ws);
		vf_assert (r == 0 || r == 1);
		if (r == 0) { vf_assert (cv_signalled); }
		if (r == 1) { vf_assert (vf_now_ge (ds, 0)); }
	}
	nsync_mu_unlock (&mu);
}
void final_cv_again (void) {
	nsync_mu_lock (&mu);
	nsync_cv_broadcast (&cv);
	nsync_mu_unlock (&mu);
}
void signaller_after (void) {
	nsync_mu_lock (&mu);
	flag = 1;
	cv_signalled = 1;
	nsync_mu_unlock (&mu);
	nsync_cv_signal (&cv);
}
/* wait on the counter alone through nsync_wait_n, no mutex, solver-chosen deadline */
void waitn_ctr (void) {
	struct nsync_waitable_s w1;
	struct nsync_waitable_s *ws[1];
	long ds = (long) (vf_nondet () & 0xff);
	int r;
	w1.v = ctr; w1.funcs = &nsync_counter_waitable_funcs;
	ws[0] = &w1;
	r = nsync_wait_n (0, 0, 0, nsync_time_s_ns (ds, 0), 1, ws);
	vf_assert (r == 0 || r == 1);
	if (r == 0) { vf_assert (nsync_counter_value (ctr) == 0); }
	if (r == 1) { vf_assert (vf_now_ge (ds, 0)); }
}
void final_ready_again_noted (void) {
	if (nsync_counter_value (ctr) != 0) { nsync_counter_add (ctr, -1); }
	nsync_mu_lock (&mu);
	nsync_cv_broadcast (&cv);
	nsync_mu_unlock (&mu);
}

void signaller (void) {
	nsync_mu_lock (&mu);
	flag = 1;
	cv_signalled = 1;
	nsync_cv_signal (&cv);
	nsync_mu_unlock (&mu);
}
void broadcaster_after (void) {
	nsync_mu_lock (&mu);
	flag = 1;
	cv_signalled = 1;
	nsync_mu_unlock (&mu);
	nsync_cv_broadcast (&cv);
}
void notifier (void) { nsync_note_notify (note); }
void decrementer (void) { nsync_counter_add (ctr, -1); }
void plain_cv_waiter (void) {
	nsync_mu_lock (&mu);
	while (!flag) { nsync_cv_wait (&cv, &mu); }
	nsync_mu_unlock (&mu);
}
/* after every call returned nothing may still be registered: make everything ready again; any stale registration
   is a dead stack record and the wakers would touch it (use-after-return oracle) */
void final_ready_again (void) {
	nsync_note_notify (note);
	if (nsync_counter_value (ctr) != 0) { nsync_counter_add (ctr, -1); }
	nsync_mu_lock (&mu);
	nsync_cv_broadcast (&cv);
	nsync_mu_unlock (&mu);
}

/* C11 (registration protocol, single thread): two records registered on the cv through the waitable interface; removing
   the first (as nsync_wait_n does when it returns for another reason) must leave the second one reachable by a signal. */
void h_cv_registration (void) {
	struct nsync_waiter_s n1, n2;
	nsync_semaphore s1, s2;
	unsigned k = vf_nondet_nv ();
	n1.tag = 0; n1.flags = 0; n1.sem = &s1; nsync_dll_init_ (&n1.q, &n1); *(unsigned *) &n1.waiting = 0;
	n2.tag = 0; n2.flags = 0; n2.sem = &s2; nsync_dll_init_ (&n2.q, &n2); *(unsigned *) &n2.waiting = 0;
	nsync_mu_semaphore_init (&s1); nsync_mu_semaphore_init (&s2);
	vf_assert ((*nsync_cv_waitable_funcs.enqueue) (&cv, &n1) != 0);
	vf_assert ((*nsync_cv_waitable_funcs.enqueue) (&cv, &n2) != 0);
	if (k & 1) {
		vf_assert ((*nsync_cv_waitable_funcs.dequeue) (&cv, &n1) != 0);     /* was still queued */
		vf_assert (*(unsigned *) &n1.waiting == 0);
		nsync_cv_signal (&cv);                                              /* must reach the remaining record */
		vf_assert (*(unsigned *) &n2.waiting == 0);
		vf_assert ((*nsync_cv_waitable_funcs.dequeue) (&cv, &n2) == 0);     /* already woken: not queued any more */
	} else {
		vf_assert ((*nsync_cv_waitable_funcs.dequeue) (&cv, &n2) != 0);
		nsync_cv_broadcast (&cv);
		vf_assert (*(unsigned *) &n1.waiting == 0);
		vf_assert ((*nsync_cv_waitable_funcs.dequeue) (&cv, &n1) == 0);
	}
	/* nothing is left registered: the cv is empty again and a further signal is a no-op */
	vf_assert (cv.waiters == 0);
	nsync_cv_signal (&cv);
}
