/* Translator validation: a deterministic single-threaded script over the public API.  The same file is (a) translated by
 * seqcc and executed natively, (b) compiled by gcc and linked with the real library; both print one line per vf_event and
 * the two outputs must be identical. */
#include "nsync.h"
#include "vf_api.h"
extern void vf_event (unsigned long a, unsigned long b);

static nsync_mu mu;
static nsync_cv cv;
static nsync_once once;
static int once_runs;
static void once_fn (void) { once_runs++; }
static int flag_true (const void *v) { return *(const int *) v; }
static int one = 1;

void tv_script (void) {
	unsigned k = 0;
	nsync_counter c;
	nsync_note n1, n2, n3;
	nsync_time a, b, d;
	nsync_mu_init (&mu); nsync_cv_init (&cv);
	vf_event (++k, *(unsigned *) &mu.word);
	nsync_mu_lock (&mu);             vf_event (++k, *(unsigned *) &mu.word);
	vf_event (++k, (unsigned long) nsync_mu_trylock (&mu));
	vf_event (++k, (unsigned long) nsync_mu_rtrylock (&mu));
	nsync_mu_unlock (&mu);           vf_event (++k, *(unsigned *) &mu.word);
	nsync_mu_rlock (&mu);            vf_event (++k, *(unsigned *) &mu.word);
	vf_event (++k, (unsigned long) nsync_mu_rtrylock (&mu)); vf_event (++k, *(unsigned *) &mu.word);
	vf_event (++k, (unsigned long) nsync_mu_trylock (&mu));
	vf_event (++k, (unsigned long) nsync_mu_is_reader (&mu));
	nsync_mu_runlock (&mu);          vf_event (++k, *(unsigned *) &mu.word);
	nsync_mu_runlock (&mu);          vf_event (++k, *(unsigned *) &mu.word);
	vf_event (++k, (unsigned long) nsync_mu_trylock (&mu)); vf_event (++k, *(unsigned *) &mu.word);
	nsync_mu_wait (&mu, &flag_true, &one, 0);                vf_event (++k, *(unsigned *) &mu.word);
	vf_event (++k, (unsigned long) nsync_mu_wait_with_deadline (&mu, &flag_true, &one, 0, nsync_time_zero, 0));
	nsync_cv_signal (&cv); nsync_cv_broadcast (&cv);         vf_event (++k, *(unsigned *) &cv.word);
	nsync_mu_unlock_without_wakeup (&mu);                    vf_event (++k, *(unsigned *) &mu.word);
	/* once */
	nsync_run_once (&once, &once_fn); nsync_run_once (&once, &once_fn); nsync_run_once_spin (&once, &once_fn);
	vf_event (++k, (unsigned long) once_runs); vf_event (++k, *(unsigned *) &once);
	/* counter */
	c = nsync_counter_new (3);
	vf_event (++k, nsync_counter_value (c));
	vf_event (++k, nsync_counter_add (c, -1)); vf_event (++k, nsync_counter_add (c, 2)); vf_event (++k, nsync_counter_add (c, -4));
	vf_event (++k, nsync_counter_wait (c, nsync_time_no_deadline));
	vf_event (++k, nsync_counter_add (c, 0));
	nsync_counter_free (c);
#ifdef TV_NOTES
	/* notes */
	n1 = nsync_note_new (0, nsync_time_no_deadline);
	n2 = nsync_note_new (n1, nsync_time_s_ns (4000000000L, 5));
	n3 = nsync_note_new (n2, nsync_time_s_ns (5000000000L, 7));
	vf_event (++k, (unsigned long) nsync_note_expiry (n3).tv_sec); vf_event (++k, (unsigned long) nsync_note_expiry (n3).tv_nsec);
	vf_event (++k, (unsigned long) nsync_note_is_notified (n3));
	nsync_note_notify (n2);
	vf_event (++k, (unsigned long) nsync_note_is_notified (n1)); vf_event (++k, (unsigned long) nsync_note_is_notified (n2)); vf_event (++k, (unsigned long) nsync_note_is_notified (n3));
	vf_event (++k, (unsigned long) nsync_note_wait (n3, nsync_time_no_deadline));
	nsync_note_free (n2);
	nsync_note_notify (n1);
	vf_event (++k, (unsigned long) nsync_note_is_notified (n3));
	nsync_note_free (n3); nsync_note_free (n1);
#else
	(void) n1; (void) n2; (void) n3;
#endif
	/* time arithmetic grid */
	a = nsync_time_s_ns (7, 999999999); b = nsync_time_ms (1500); d = nsync_time_add (a, b);
	vf_event (++k, (unsigned long) d.tv_sec); vf_event (++k, (unsigned long) d.tv_nsec);
	d = nsync_time_sub (d, nsync_time_us (2500001));
	vf_event (++k, (unsigned long) d.tv_sec); vf_event (++k, (unsigned long) d.tv_nsec);
	vf_event (++k, (unsigned long) (nsync_time_cmp (a, d) + 1)); vf_event (++k, (unsigned long) (nsync_time_cmp (d, a) + 1)); vf_event (++k, (unsigned long) (nsync_time_cmp (a, a) + 1));
}
