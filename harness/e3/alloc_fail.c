/* C19: allocation failure is reported, not crashed on, by nsync_note_new / nsync_counter_new, and leaves every
 * existing object (the intended parent) unchanged and usable.  Single thread; "fail_alloc" makes malloc return NULL
 * (translator option malloc_fail_flag); which allocation fails, the shape of the parent and the deadline kind are
 * solver variables.  If the parent were left locked, the later calls on it would block: the scheduler's oracle
 * reports that as a deadlock. */
#include "nsync_cpp.h"
#include "platform.h"
#include "compiler.h"
#include "cputype.h"
#include "nsync.h"
#include "dll.h"
#include "sem.h"
#include "wait_internal.h"
#include "common.h"
#include "vf_api.h"

int fail_alloc;

static int nchildren (nsync_note p) {
	int n = 0;
	nsync_dll_element_ *e;
	for (e = nsync_dll_first_ (p->children); e != 0; e = nsync_dll_next_ (p->children, e)) { n++; }
	return n;
}

void h_note (void) {
	unsigned k = vf_nondet_nv ();
	nsync_note parent = 0, sib = 0, n;
	nsync_dll_element_ *ch0 = 0; uint32_t notified0 = 0; int nch0 = 0;
	nsync_time dl = (k & 8) ? nsync_time_s_ns (1000, 0) : nsync_time_no_deadline;
	if (k & 1) {
		parent = nsync_note_new (0, nsync_time_no_deadline);
		vf_assert (parent != 0);
		if (k & 2) { sib = nsync_note_new (parent, nsync_time_no_deadline); vf_assert (sib != 0 && nchildren (parent) == 1); }
		ch0 = parent->children; notified0 = *(uint32_t *) &parent->notified; nch0 = nchildren (parent);
	}
	fail_alloc = (int) (vf_nondet_nv () & 1);
	n = nsync_note_new (parent, dl);
	if (fail_alloc) {
		vf_assert (n == 0);                                                  /* failure is reported as NULL */
		if (parent != 0) {
			vf_assert (parent->children == ch0 && nchildren (parent) == nch0);  /* children list intact */
			vf_assert (*(uint32_t *) &parent->notified == notified0 && parent->parent == 0 && parent->disconnecting == 0 && parent->waiters == 0);
			vf_assert (*(uint32_t *) &parent->note_mu.word == 0 && parent->note_mu.waiters == 0);   /* and not left locked */
		}
	} else {
		vf_assert (n != 0);
		if (parent != 0) { vf_assert (n->parent == parent && nchildren (parent) == nch0 + 1); }
	}
	fail_alloc = 0;
	if (parent != 0) {       /* the parent is still usable: its lock can be taken, it is not notified, another child can be linked */
		vf_assert (nsync_mu_trylock (&parent->note_mu) != 0);
		nsync_mu_unlock (&parent->note_mu);
		vf_assert (!nsync_note_is_notified (parent));
		if (sib != 0) { vf_assert (sib->parent == parent && !nsync_note_is_notified (sib)); }
	}
}

void h_counter (void) {
	uint32_t v = vf_nondet_nv ();
	nsync_counter c;
	fail_alloc = (int) (vf_nondet_nv () & 1);
	c = nsync_counter_new (v);
	if (fail_alloc) { vf_assert (c == 0); }
	else { vf_assert (c != 0 && nsync_counter_value (c) == v); }
}
