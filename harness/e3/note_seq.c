/* C08 / C09, sequential half: one thread, one context, loops unrolled.  Deadlines are solver-chosen from
 * {none, 100 s, 200 s, 300 s} against a frozen clock at 0 (so nothing expires during the run: the lazy-expiry notify is
 * asserted unreachable); tree root -> child -> grand plus a sibling of child. */
#include "nsync.h"
#include "vf_api.h"

static nsync_time pick (unsigned k) {
	k &= 3;
	return k == 0 ? nsync_time_no_deadline : nsync_time_s_ns (100 * (long) k, 0);
}
static nsync_time tmin (nsync_time a, nsync_time b) { return nsync_time_cmp (a, b) < 0 ? a : b; }

nsync_note root, child, grand, sib;

static void build (unsigned k) {
	root = nsync_note_new (0, pick (k));
	child = nsync_note_new (root, pick (k >> 2));
	grand = nsync_note_new (child, pick (k >> 4));
	sib = nsync_note_new (root, pick (k >> 6));
	vf_assume (root != 0 && child != 0 && grand != 0 && sib != 0);
}

void h_expiry (void) {      /* nsync_note_expiry is the minimum of the deadlines from the note to the root */
	unsigned k = vf_nondet_nv ();
	build (k);
	vf_assert (nsync_time_cmp (nsync_note_expiry (root), pick (k)) == 0);
	vf_assert (nsync_time_cmp (nsync_note_expiry (child), tmin (pick (k), pick (k >> 2))) == 0);
	vf_assert (nsync_time_cmp (nsync_note_expiry (grand), tmin (tmin (pick (k), pick (k >> 2)), pick (k >> 4))) == 0);
	vf_assert (nsync_time_cmp (nsync_note_expiry (sib), tmin (pick (k), pick (k >> 6))) == 0);
	vf_assert (!nsync_note_is_notified (root) && !nsync_note_is_notified (grand));
}
void h_notify_child (void) { /* notify reaches the note and its descendants; ancestors and siblings are unaffected */
	unsigned k = vf_nondet_nv ();
	build (k);
	nsync_note_notify (child);
	vf_assert (nsync_note_is_notified (child));
	vf_assert (nsync_note_is_notified (grand));
	vf_assert (!nsync_note_is_notified (root) && !nsync_note_is_notified (sib));
}
void h_notify_root (void) {
	unsigned k = vf_nondet_nv ();
	build (k);
	nsync_note_notify (root);
	vf_assert (nsync_note_is_notified (root) && nsync_note_is_notified (child) && nsync_note_is_notified (sib) && nsync_note_is_notified (grand));
}
void h_new_under_notified (void) { /* a child created under a notified parent is born notified */
	unsigned k = vf_nondet_nv ();
	nsync_note n;
	root = nsync_note_new (0, pick (k));
	vf_assume (root != 0);
	nsync_note_notify (root);
	n = nsync_note_new (root, pick (k >> 2));
	vf_assume (n != 0);
	vf_assert (nsync_note_is_notified (n));
}
void h_free_adopt (void) {   /* C09: the children of a freed note are adopted by its parent */
	unsigned k = vf_nondet_nv ();
	build (k);
	nsync_note_free (child);
	vf_assert (!nsync_note_is_notified (grand) && !nsync_note_is_notified (root));
	nsync_note_notify (root);
	vf_assert (nsync_note_is_notified (grand) && nsync_note_is_notified (sib));
	nsync_note_free (grand);
	nsync_note_free (sib);
	nsync_note_free (root);
}
