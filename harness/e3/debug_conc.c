/* C16 (concurrency half): a debug-state caller alongside lockers / cv users: it must not change who holds the mutex,
   lose a wake-up or deadlock.  Formatting is irrelevant here: emit_print is a no-op in this build (configuration
   "noop"), the buffer half is checked separately. */
#include "nsync.h"
#include "vf_api.h"
nsync_mu mu;
nsync_cv cv;
int writers, readers, flag;
char buf[8];
void locker (void) {
	nsync_mu_lock (&mu);
	writers++; vf_assert (writers == 1 && readers == 0);
	vf_yield ();
	writers--;
	nsync_mu_unlock (&mu);
}
void rlocker (void) {
	nsync_mu_rlock (&mu);
	readers++; vf_assert (writers == 0);
	vf_yield ();
	readers--;
	nsync_mu_runlock (&mu);
}
void mu_debugger (void) { nsync_mu_debug_state_and_waiters (&mu, buf, 0); }
void mu_debugger_nowaiters (void) { nsync_mu_debug_state (&mu, buf, 0); }
void cv_debugger (void) { nsync_cv_debug_state_and_waiters (&cv, buf, 0); }
void cv_waiter (void) {
	nsync_mu_lock (&mu);
	while (!flag) { nsync_cv_wait (&cv, &mu); }
	nsync_mu_unlock (&mu);
}
void cv_signaller (void) {
	nsync_mu_lock (&mu);
	flag = 1;
	nsync_cv_signal (&cv);
	nsync_mu_unlock (&mu);
}
void final_check (void) { vf_assert (writers == 0 && readers == 0); }
