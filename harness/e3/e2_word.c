/* E2 on the seqcc engine: rely/guarantee step check of the mutex-word protocol (C01; C05 lock mode at return;
 * C06 conditions evaluated under the lock; C14; C16 "only observes").
 *
 * ONE thread runs a real nsync function; the translator calls vf_env (addr) before each of its atomic accesses and
 * vf_guar (addr, old, new) at each of its atomic writes.  vf_env is the ENVIRONMENT: all other threads together, any
 * number of them, any history - it may replace the mutex word by any value the guarantee allows the others to
 * produce given what this thread holds (at most ENV_STEPS changes per call), and it wakes this thread when it sleeps.
 * vf_guar checks this thread's own writes against the guarantee, which is C01 stated on the word:
 *   - writer bit added only to a word without writer bit and reader count 0, by a thread holding nothing (or by the
 *     last reader converting itself); removed only by the writer;
 *   - reader count +1 only on a word without writer bit by a thread holding nothing; -1 only by a reader;
 *   - spinlock taken only when clear, released only by its holder; no other change of the lock bits (a stale word
 *     written back is caught here).
 * Every thread's every step keeps the guarantee from any state allowed by the rely, and the rely is the others'
 * guarantee: so writer exclusion / reader sharing is inductive for ANY number of threads and ANY schedule. */
#include "nsync_cpp.h"
#include "platform.h"
#include "compiler.h"
#include "cputype.h"
#include "nsync.h"
#include "dll.h"
#include "sem.h"
#include "wait_internal.h"
#include "common.h"
#include "vf_api.h"
#include <errno.h>

#ifndef ENV_STEPS
#define ENV_STEPS 3
#endif
#define NQ 2

nsync_mu MU;
nsync_cv CV;
enum { M_NONE = 0, M_R = 1, M_W = 2 };
int g_mode, g_spin, g_desig;
int g_cvspin;                /* this thread holds the cv's spinlock */
int env_left = ENV_STEPS;
int long_wait_mine;          /* MU_LONG_WAIT was set by this thread and not yet cleared */
int ever_slept;              /* this thread has slept on the mutex during the call */
int sleeps;                  /* number of times it went to sleep */
int c14_in_lock;
int on_cv;                    /* the thread is waiting on CV (its record is on CV's queue) */
int cv_unlinked, cv_wake_delay;  /* two-step wake-up by a signaller: unlinked under the cv spinlock, flag cleared later */
int woken_by_signal;          /* a signaller dequeued the thread's record from CV (it consumed a wake-up) */
int timed_wait;                /* the thread's wait has a finite deadline */
int cond_var;                 /* the condition of the thread's own nsync_mu_wait; other threads change it in their critical sections */
int writer_release_expect_clear = 1;   /* C06: a writer's release by nsync_mu_unlock leaves MU_ALL_FALSE clear */             /* inside nsync_mu_lock / nsync_mu_rlock (C14 obligations on the queueing) */
waiter Q[NQ];
waiter MEW;                  /* this thread's waiter record: the per-thread cache of nsync_waiter_new_ is pre-seeded with it */
#define me (&MEW)
int cond_flag[NQ];

#define WORD (*(uint32_t *) &MU.word)
#define READERS(w) ((w) >> 8)

static int inv (uint32_t w) { return !((w & MU_WLOCK) != 0 && READERS (w) != 0); }
static int rely_ok (uint32_t w) {
	if (!inv (w)) { return 0; }
	if (g_mode == M_W && !((w & MU_WLOCK) != 0 && READERS (w) == 0)) { return 0; }
	if (g_mode == M_R && !((w & MU_WLOCK) == 0 && READERS (w) >= 1)) { return 0; }
	if (g_spin && (w & MU_SPINLOCK) == 0) { return 0; }
	if (READERS (w) > 0x7fffff) { return 0; }
	if (long_wait_mine && (w & MU_LONG_WAIT) == 0) { return 0; }    /* C14 (2): nobody else clears this thread's MU_LONG_WAIT */
	/* "MU_CONDITION: illegal to fail to set it with such a waiter": nobody clears it while a conditional waiter is still asleep */
	if ((w & MU_CONDITION) == 0) {
		unsigned i;
		for (i = 0; i < NQ; i++) { if (Q[i].cond.f != 0 && *(uint32_t *) &Q[i].nw.waiting != 0) { return 0; } }
		if (me->cond.f != 0 && *(uint32_t *) &me->nw.waiting != 0) { return 0; }
	}
	return 1;
}

void vf_env (void *addr) {
	if (addr == (void *) &MU.word) {
		/* a thread that holds the write lock AND the queue spinlock owns the word: every other writer of the word needs one of the two
		   to be free (acquisitions need the lock bits clear, queue operations and hint-bit updates need the spinlock) */
		if (env_left > 0 && !(g_mode == M_W && g_spin) && (vf_nondet_nv () & 1) != 0) {
			uint32_t w = vf_nondet_nv ();
			vf_assume (rely_ok (w));
			env_left--;
			/* fairness: the others do not keep the queue spinlock for ever */
			if (env_left == 0) { vf_assume ((w & MU_SPINLOCK) == 0 || g_spin); }
			WORD = w;
		}
	} else if (addr == (void *) &CV.word) {
		/* the cv word changes only under the cv spinlock: the others can change it only while this thread does not hold it */
		if (!g_cvspin && env_left > 0 && (vf_nondet_nv () & 1) != 0) {
			uint32_t w = vf_nondet_nv () & (CV_SPINLOCK | CV_NON_EMPTY);
			if (CV.waiters != 0) { w |= CV_NON_EMPTY; }      /* non-empty bit agrees with the (fixed) queue */
			env_left--;
			if (env_left == 0) { vf_assume ((w & CV_SPINLOCK) == 0); }
			*(uint32_t *) &CV.word = w;
		}
	} else if (addr == (void *) &me->nw.waiting && *(uint32_t *) &me->nw.waiting != 0) {
		if (on_cv && me->cv_mu != 0) {
			/* the thread waits on CV: a signaller may pick it at any moment (racing a timeout), in two steps as in the real code:
			   (1) under the cv spinlock (which this thread must not hold then) it unlinks the record and bumps remove_count;
			   (2) later, without the spinlock, it clears the waiting flag (and posts the semaphore) */
			if (!cv_unlinked) {
				if (!g_cvspin && (*(uint32_t *) &CV.word & CV_SPINLOCK) == 0 && (vf_nondet_nv () & 1) != 0) {
					CV.waiters = nsync_dll_remove_ (CV.waiters, &me->nw.q);
					*(uint32_t *) &me->remove_count = *(uint32_t *) &me->remove_count + 1;
					if (CV.waiters == 0) { *(uint32_t *) &CV.word = *(uint32_t *) &CV.word & ~CV_NON_EMPTY; }
					cv_unlinked = 1; woken_by_signal = 1;
				}
			} else if ((vf_nondet_nv () & 1) != 0 || cv_wake_delay >= 2) {
				*(uint32_t *) &me->nw.waiting = 0;
			} else {
				cv_wake_delay++;
			}
		} else if (!on_cv && !(timed_wait && (vf_nondet_nv () & 1) != 0)) {
			/* the thread sleeps on the mutex: some unlocker dequeues it, marks it designated waker and wakes it
			   (in a timed wait the unlocker may also not come: the timeout path must then re-acquire by itself) */
			MU.waiters = nsync_remove_from_mu_queue_ (MU.waiters, &me->nw.q);
			*(uint32_t *) &me->nw.waiting = 0;
			g_desig = 1; ever_slept = 1; sleeps++;
		}
	}
	if (g_mode == M_NONE && (vf_nondet_nv () & 1) != 0) { cond_var = (int) (vf_nondet_nv () & 1); }   /* others' critical sections change the condition */
}

void vf_guar (void *addr, uint32_t o, uint32_t n) {
	if (addr == (void *) &CV.word) {
		if ((o & CV_SPINLOCK) == 0 && (n & CV_SPINLOCK) != 0) { vf_assert (!g_cvspin); g_cvspin = 1; }
		else if ((o & CV_SPINLOCK) != 0 && (n & CV_SPINLOCK) == 0) { vf_assert (g_cvspin); g_cvspin = 0; }   /* C16: cv spinlock released only by its holder */
		else { vf_assert (g_cvspin || o == n); }                       /* the cv word is written only under its spinlock */
		return;
	}
	if (addr != (void *) &MU.word) { return; }
	{
		int taken_w = (o & MU_WLOCK) == 0 && (n & MU_WLOCK) != 0;
		int dropped_w = (o & MU_WLOCK) != 0 && (n & MU_WLOCK) == 0;
		uint32_t ro = READERS (o), rn = READERS (n);
		int acquired = 0;
		vf_assert (inv (n));                                             /* C01: never a writer together with readers */
		/* discharges the rely "a thread holding the write lock and the spinlock owns the word": nobody else writes it then */
		if ((o & MU_WLOCK) != 0 && (o & MU_SPINLOCK) != 0) { vf_assert (g_mode == M_W || g_spin); }
		if (taken_w) {
			if (g_mode == M_R) { vf_assert (ro == 1 && rn == 0); }     /* C01: only the last reader converts itself into the writer (not a new acquisition) */
			else { vf_assert (g_mode == M_NONE && ro == 0 && rn == 0); acquired = 1; } /* C01: writer bit added only to a free mutex by a thread holding nothing */
			g_mode = M_W;
		} else if (dropped_w) {
			vf_assert (g_mode == M_W);                                 /* C01: writer bit removed only by the writer */
			vf_assert (rn == 0 || (rn == 1 && ro == 0));               /* ... which may downgrade itself to a single reader in the same write */
			/* C06: a writer that releases WITHOUT scanning the waiters' conditions (fast path: it neither holds nor takes the queue spinlock)
			   must clear MU_ALL_FALSE, because its section may have made conditions true; after a scan the bit reflects that scan */
			if (writer_release_expect_clear && !g_spin && (n & MU_SPINLOCK) == 0) { vf_assert ((n & MU_ALL_FALSE) == 0); }
			g_mode = (rn == 1) ? M_R : M_NONE;
		} else if (rn == ro + 1) {
			vf_assert ((o & MU_WLOCK) == 0 && g_mode == M_NONE);       /* C01: reader count +1 only without writer, by a thread holding nothing */
			g_mode = M_R; acquired = 1;
		} else if (rn + 1 == ro) {
			vf_assert (g_mode == M_R);                                 /* C01: reader count -1 only by a reader */
			g_mode = M_NONE;
		} else {
			vf_assert (rn == ro);                                      /* C01/C16: a stale word was written back (reader count jumped) */
		}
		if ((o & MU_SPINLOCK) == 0 && (n & MU_SPINLOCK) != 0) {
			vf_assert (!g_spin); g_spin = 1;
			/* C14 (2): a locker that has been woken LONG_WAIT_THRESHOLD times without acquiring announces it when it queues itself again */
			if (c14_in_lock && g_mode == M_NONE && sleeps >= LONG_WAIT_THRESHOLD) { vf_assert ((n & MU_LONG_WAIT) != 0); }
		}
		else if ((o & MU_SPINLOCK) != 0 && (n & MU_SPINLOCK) == 0) {
			vf_assert (g_spin); g_spin = 0;                             /* spinlock released only by its holder */
			/* C14 (3): a thread that has slept before re-queues itself at the FRONT of the queue, a first-time sleeper at the back */
			if (c14_in_lock && *(uint32_t *) &me->nw.waiting != 0) {
				if (sleeps >= 1) { vf_assert (nsync_dll_first_ (MU.waiters) == &me->nw.q); }
				else { vf_assert (nsync_dll_last_ (MU.waiters) == &me->nw.q); }
			}
		}
		/* C14 */
		if (acquired && (o & MU_LONG_WAIT) != 0 && !long_wait_mine) { vf_assert (ever_slept); }   /* (1) a thread that has not waited never acquires past MU_LONG_WAIT */
		if ((o & MU_LONG_WAIT) == 0 && (n & MU_LONG_WAIT) != 0) { long_wait_mine = 1; }
		if ((o & MU_LONG_WAIT) != 0 && (n & MU_LONG_WAIT) == 0) { vf_assert (long_wait_mine && acquired); long_wait_mine = 0; }  /* (2) cleared only by its setter, on acquiring */
		if (acquired) { g_desig = 0; }
	}
}

/* conditions of the waiters already queued: evaluated only by a thread holding the mutex exclusively */
static int cond_fn (const void *v) { vf_assert (g_mode == M_W); return *(const int *) v; }
static int cond_plain (const void *v) { return *(const int *) v; }
int never_true;

static void init_waiter (waiter *w) {
	w->tag = WAITER_TAG; w->nw.tag = NSYNC_WAITER_TAG; w->nw.sem = &w->sem;
	nsync_dll_init_ (&w->nw.q, &w->nw);
	w->nw.flags = NSYNC_WAITER_FLAG_MUCV;
	nsync_dll_init_ (&w->same_condition, w);
	w->flags = WAITER_RESERVED | WAITER_IN_USE;
}
static void setup (int mode) {
	uint32_t word0 = vf_nondet_nv ();
	unsigned nq = vf_nondet_nv () & 3;
	unsigned i;
	int anycond = 0;
	g_mode = mode;
	init_waiter (me); me->flags = WAITER_RESERVED;
	vf_assume (nq <= NQ);
	for (i = 0; i < NQ; i++) {
		if (i < nq) {
			unsigned k = vf_nondet_nv ();
			init_waiter (&Q[i]);
			Q[i].l_type = (k & 1) ? nsync_reader_type_ : nsync_writer_type_;
			*(uint32_t *) &Q[i].nw.waiting = 1;
			if (k & 2) { cond_flag[i] = (k >> 2) & 1; Q[i].cond.f = &cond_fn; Q[i].cond.v = &cond_flag[i]; anycond = 1; }
			if (i > 0) { nsync_maybe_merge_conditions_ (nsync_dll_last_ (MU.waiters), &Q[i].nw.q); }
			MU.waiters = nsync_dll_make_last_in_list_ (MU.waiters, &Q[i].nw.q);
		}
	}
	vf_assume (rely_ok (word0));
	vf_assume ((word0 & MU_SPINLOCK) == 0);              /* at the call; the environment may take it afterwards */
	vf_assume (nq == 0 || (word0 & MU_WAITING) != 0);    /* MU_WAITING is set whenever the queue is non-empty */
	vf_assume (!anycond || (word0 & MU_CONDITION) != 0); /* "illegal to fail to set it with such a waiter" */
	WORD = word0;
}

void h_lock (void) { setup (M_NONE); nsync_mu_lock (&MU); vf_assert (g_mode == M_W && !g_spin); }
void h_rlock (void) { setup (M_NONE); nsync_mu_rlock (&MU); vf_assert (g_mode == M_R && !g_spin); }
void h_trylock (void) { int r; setup (M_NONE); r = nsync_mu_trylock (&MU); vf_assert ((r != 0) == (g_mode == M_W) && (r != 0 || g_mode == M_NONE) && !g_spin); vf_assert (sleeps == 0); }
void h_rtrylock (void) { int r; setup (M_NONE); r = nsync_mu_rtrylock (&MU); vf_assert ((r != 0) == (g_mode == M_R) && (r != 0 || g_mode == M_NONE) && !g_spin); vf_assert (sleeps == 0); }
void h_unlock (void) { setup (M_W); nsync_mu_unlock (&MU); vf_assert (g_mode == M_NONE && !g_spin); }
void h_runlock (void) { setup (M_R); nsync_mu_runlock (&MU); vf_assert (g_mode == M_NONE && !g_spin); }
void h_unlock_nowake (void) { setup (M_W); writer_release_expect_clear = 0; nsync_mu_unlock_without_wakeup (&MU); vf_assert (g_mode == M_NONE && !g_spin); }
static void mu_wait_body (unsigned k, int rd) {       /* C05: returns holding the mutex in the mode of entry; 0 exactly when the condition is true at return */
	int r;
	env_left = 2;                        /* at most 2 interfering changes of the word during this (long) call: keeps the query inside the quick budget */
	setup (rd ? M_R : M_W);
	cond_var = 0;
	timed_wait = (k & 2) != 0;
	writer_release_expect_clear = 0;     /* the wait itself releases the lock without having changed anything */
	r = nsync_mu_wait_with_deadline (&MU, &cond_plain, &cond_var, 0, (k & 2) ? nsync_time_s_ns (50, 0) : nsync_time_no_deadline, 0);
	vf_assert (g_mode == (rd ? M_R : M_W) && !g_spin);
	vf_assert (r == 0 || r == ETIMEDOUT);
	vf_assert ((r == 0) == (cond_var != 0));         /* the lock is held here, so nobody changes cond_var any more */
	if (!(k & 2)) { vf_assert (r == 0); }
}
static void cv_wait_body (unsigned k, int rd) {       /* C05 + C04: mode of entry restored; a wait that consumed a wake-up reports 0 */
	int r;
	env_left = 2;
	setup (rd ? M_R : M_W);
	on_cv = 1;
	writer_release_expect_clear = 0;
	r = nsync_cv_wait_with_deadline (&CV, &MU, (k & 2) ? nsync_time_s_ns (50, 0) : nsync_time_no_deadline, 0);
	on_cv = 0;
	vf_assert (g_mode == (rd ? M_R : M_W) && !g_spin && !g_cvspin);
	vf_assert (r == 0 || r == ETIMEDOUT);
	if (woken_by_signal) { vf_assert (r == 0); }       /* C04: never reported as a timeout */
	if (!(k & 2)) { vf_assert (r == 0); }
}
/* one query per lock mode (constant), the deadline / no-deadline choice stays symbolic: smaller formulas, run in parallel */
void h_mu_wait_w (void) { mu_wait_body (vf_nondet_nv (), 0); }
void h_mu_wait_r (void) { mu_wait_body (vf_nondet_nv (), 1); }
void h_cv_wait_w (void) { cv_wait_body (vf_nondet_nv (), 0); }
void h_cv_wait_r (void) { cv_wait_body (vf_nondet_nv (), 1); }
void h_mu_wait (void) { unsigned k = vf_nondet_nv (); mu_wait_body (k, (int) (k & 1)); }
void h_cv_wait (void) { unsigned k = vf_nondet_nv (); cv_wait_body (k, (int) (k & 1)); }
/* C14: the mutex stays busy (writer-held for a writer victim, or writer-held/reader-held), so the victim is sent back to sleep again and again */
void h_lock_long (void) {
	unsigned k = vf_nondet_nv ();
	setup (M_NONE);
	c14_in_lock = 1;
	if (k & 1) { nsync_mu_lock (&MU); vf_assert (g_mode == M_W); } else { nsync_mu_rlock (&MU); vf_assert (g_mode == M_R); }
	c14_in_lock = 0;
	vf_assert (!long_wait_mine);          /* whoever set MU_LONG_WAIT has cleared it on acquiring */
}
/* a condition variable with 1..2 waiters that are associated with MU (so signal/broadcast may transfer them to MU's queue) */
waiter CQ[2];
static void setup_cv (void) {
	unsigned k = vf_nondet_nv ();
	unsigned n = 1 + (k & 1), i;
	for (i = 0; i < n; i++) {
		init_waiter (&CQ[i]);
		CQ[i].cv_mu = &MU;
		CQ[i].l_type = ((k >> (1 + i)) & 1) ? nsync_reader_type_ : nsync_writer_type_;
		*(uint32_t *) &CQ[i].nw.waiting = 1;
		CV.waiters = nsync_dll_make_last_in_list_ (CV.waiters, &CQ[i].nw.q);
	}
	*(uint32_t *) &CV.word = CV_NON_EMPTY;
}
void h_cv_signal (void) {     /* C01: a signaller (holding the mutex in any mode, or not at all) changes no lock bit of the mutex */
	unsigned k = vf_nondet_nv () % 3;
	setup (k); setup_cv ();
	if (vf_nondet_nv () & 1) { nsync_cv_signal (&CV); } else { nsync_cv_broadcast (&CV); }
	vf_assert (g_mode == (int) k && !g_spin && !g_cvspin);
}
char dbuf[4];
void h_cv_debug (void) {      /* C16: the cv debug-state functions only observe */
	unsigned k = vf_nondet_nv ();
	setup (M_NONE); setup_cv ();
	if (k & 1) { nsync_cv_debug_state_and_waiters (&CV, dbuf, 0); } else { nsync_cv_debug_state (&CV, dbuf, 0); }
	vf_assert (g_mode == M_NONE && !g_spin && !g_cvspin);
}
void h_debug (void) {         /* C16: only observes */
	unsigned k = vf_nondet_nv ();
	setup (M_NONE);
	if (k & 1) { nsync_mu_debug_state_and_waiters (&MU, dbuf, 0); } else { nsync_mu_debug_state (&MU, dbuf, 0); }
	vf_assert (g_mode == M_NONE && !g_spin);
}
