/* C05 (cancellable waits): a wait given a cancel note returns ECANCELED only when the note is notified, 0 only when
 * woken, ETIMEDOUT only at/after its deadline, always holding the mutex; a cancellation is never lost (deadlock oracle:
 * the only other thread is the notifier, nobody ever signals the cv / makes the condition true). */
#include "nsync.h"
#include "vf_api.h"
#include <errno.h>

nsync_mu mu;
nsync_cv cv;
nsync_note note;
int flag;
int holding;

void setup (void) { note = nsync_note_new (0, nsync_time_no_deadline); vf_assume (note != 0); }

void cv_waiter_cancel (void) {
	int r = 0;
	nsync_mu_lock (&mu);
	holding = 1;
	while (!flag && r == 0) {
		holding = 0;
		r = nsync_cv_wait_with_deadline (&cv, &mu, nsync_time_no_deadline, note);
		vf_assert (holding == 0);          /* nobody else entered: we hold mu again */
		holding = 1;
		nsync_mu_assert_held (&mu);        /* panics (= violation) if the wait returned without the lock */
		vf_assert (r == 0 || r == ECANCELED);              /* no deadline was given */
		if (r == ECANCELED) { vf_assert (nsync_note_is_notified (note)); }
	}
	vf_assert (r == ECANCELED);                /* flag is never set */
	holding = 0;
	nsync_mu_unlock (&mu);
}
void cv_waiter_cancel_timed (void) {
	long ds = (long) (vf_nondet () & 0xff);
	int r = 0;
	nsync_mu_lock (&mu);
	while (!flag && r == 0) {
		r = nsync_cv_wait_with_deadline (&cv, &mu, nsync_time_s_ns (ds, 0), note);
		nsync_mu_assert_held (&mu);
		vf_assert (r == 0 || r == ECANCELED || r == ETIMEDOUT);
		if (r == ECANCELED) { vf_assert (nsync_note_is_notified (note)); }
		if (r == ETIMEDOUT) { vf_assert (vf_now_ge (ds, 0)); }
	}
	vf_assert (r != 0);
	nsync_mu_unlock (&mu);
}
static int flag_set (const void *v) { return (*(const int *) v != 0); }
void mu_waiter_cancel (void) {
	int r;
	nsync_mu_lock (&mu);
	r = nsync_mu_wait_with_deadline (&mu, &flag_set, &flag, NULL, nsync_time_no_deadline, note);
	nsync_mu_assert_held (&mu);
	vf_assert (r == ECANCELED);                /* flag is never set, no deadline */
	vf_assert (nsync_note_is_notified (note));
	nsync_mu_unlock (&mu);
}
void notifier (void) { nsync_note_notify (note); }
/* a thread that takes and releases the mutex once without changing anything (so the wake-up path of the unlock is exercised) */
void toucher (void) { nsync_mu_lock (&mu); vf_assert (holding == 0); nsync_mu_unlock (&mu); }
void final_nothing (void) { }
