/* C03: every hand-off is a happens-before edge under the declared memory orders.
 * Client data is written/read with PLAIN accesses on both sides of each hand-off; the runtime (seqcc/rt/vf_hb.h)
 * computes happens-before only from the order each atomic operation requests and reports any plain access that is
 * not ordered after the previous conflicting one - on client data and on nsync's own non-atomic fields alike. */
#include "nsync_cpp.h"
#include "platform.h"
#include "compiler.h"
#include "cputype.h"
#include "nsync.h"
#include "dll.h"
#include "sem.h"
#include "wait_internal.h"
#include "common.h"
#include "vf_api.h"

nsync_mu mu;
nsync_cv cv;
int x;                       /* protected by mu */
int flag;                    /* protected by mu */
nsync_once once;
int y;                       /* written by the once-function */
nsync_note note;
int z;                       /* written before notify */
nsync_counter ctr;
int v;                       /* written before the zeroing add */

/* --- mutex --- */
void t_writer (void) { nsync_mu_lock (&mu); x++; nsync_mu_unlock (&mu); }
void t_writer2 (void) { nsync_mu_lock (&mu); x++; nsync_mu_unlock (&mu); nsync_mu_lock (&mu); x++; nsync_mu_unlock (&mu); }
void t_reader (void) { int a; nsync_mu_rlock (&mu); a = x; nsync_mu_runlock (&mu); (void) a; }
void t_trywriter (void) { if (nsync_mu_trylock (&mu)) { x++; nsync_mu_unlock (&mu); } }
/* --- condition variable / conditional critical section --- */
void t_cv_waiter (void) { nsync_mu_lock (&mu); while (!flag) { nsync_cv_wait (&cv, &mu); } x++; nsync_mu_unlock (&mu); }
void t_cv_signaller (void) { nsync_mu_lock (&mu); x++; flag = 1; nsync_cv_signal (&cv); nsync_mu_unlock (&mu); }
static int flag_set (const void *p) { return *(const int *) p != 0; }
void t_mw_waiter (void) { nsync_mu_lock (&mu); nsync_mu_wait (&mu, &flag_set, &flag, 0); x++; nsync_mu_unlock (&mu); }
void t_mw_setter (void) { nsync_mu_lock (&mu); x++; flag = 1; nsync_mu_unlock (&mu); }
/* --- once --- */
static void once_fn (void) { y = 1; }
void t_once (void) { nsync_run_once (&once, &once_fn); vf_assert (y == 1); }
void t_once_spin (void) { nsync_run_once_spin (&once, &once_fn); vf_assert (y == 1); }
/* --- note --- */
void setup_note (void) { note = nsync_note_new (0, nsync_time_no_deadline); vf_assume (note != 0); }
void t_notifier (void) { z = 1; nsync_note_notify (note); }
void t_note_observer (void) { if (nsync_note_is_notified (note)) { vf_assert (z == 1); } }
void t_note_waiter (void) { if (nsync_note_wait (note, nsync_time_no_deadline)) { vf_assert (z == 1); } }
/* --- counter --- */
void setup_ctr (void) { ctr = nsync_counter_new (1); vf_assume (ctr != 0); }
void t_ctr_dec (void) { v = 1; nsync_counter_add (ctr, -1); }
void t_ctr_waiter (void) { if (nsync_counter_wait (ctr, nsync_time_no_deadline) == 0) { vf_assert (v == 1); } }
void t_ctr_observer (void) { if (nsync_counter_value (ctr) == 0) { vf_assert (v == 1); } }
/* a PASSIVE queued writer: a waiter record placed on mu's queue by the set-up code (standing for a thread asleep in
   nsync_mu_lock), so that the first unlock goes through nsync_mu_unlock_slow_ while a second thread can barge in between the
   CAS that drops the lock and the final release: the hand-off unlocker -> barging acquirer must still be a happens-before edge. */
waiter PW;
void setup_passive_writer (void) {
	PW.tag = WAITER_TAG; PW.nw.tag = NSYNC_WAITER_TAG; PW.nw.sem = &PW.sem;
	nsync_dll_init_ (&PW.nw.q, &PW.nw);
	PW.nw.flags = NSYNC_WAITER_FLAG_MUCV;
	nsync_dll_init_ (&PW.same_condition, &PW);
	PW.flags = WAITER_RESERVED | WAITER_IN_USE;
	PW.l_type = nsync_writer_type_;
	*(uint32_t *) &PW.nw.waiting = 1;
	nsync_mu_semaphore_init (&PW.sem);
	mu.waiters = nsync_dll_make_last_in_list_ (mu.waiters, &PW.nw.q);
	*(uint32_t *) &mu.word = MU_WAITING | MU_WRITER_WAITING;
}
void final_x (void) { int a = x; (void) a; }
