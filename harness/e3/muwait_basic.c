/* C06 / C05 / C01: conditional critical sections on one mutex. */
#include "nsync.h"
#include "vf_api.h"
#include <errno.h>

nsync_mu mu;
int a, b;                 /* state protected by mu */
int writers, readers;
int in_write_cs;          /* a thread is inside a write critical section (for "conditions are evaluated under the lock") */

#define ENTER_W() do { writers++; vf_assert (writers == 1 && readers == 0); in_write_cs = 1; } while (0)
#define LEAVE_W() do { vf_assert (writers == 1 && readers == 0); in_write_cs = 0; writers--; } while (0)
#define ENTER_R() do { readers++; vf_assert (writers == 0); } while (0)
#define LEAVE_R() do { vf_assert (writers == 0); readers--; } while (0)

/* conditions: evaluated only by a thread that holds the mutex, hence never inside another thread's write section.
   The waiting thread itself leaves its own section (LEAVE) before calling the wait. */
static int a_set (const void *v) { vf_assert (in_write_cs == 0); return *(const int *) v != 0; }
static int b_set (const void *v) { vf_assert (in_write_cs == 0); return *(const int *) v != 0; }
static int int_eq (const void *x, const void *y) { return x == y || 1; }   /* any two args are "equivalent" for a_set2 */
static int a_set2 (const void *v) { (void) v; vf_assert (in_write_cs == 0); return a != 0; }
static int dummy1, dummy2;

void wait_a (void) {        /* writer-mode waiter on condition a */
	nsync_mu_lock (&mu); ENTER_W ();
	LEAVE_W (); nsync_mu_wait (&mu, &a_set, &a, 0); ENTER_W ();
	vf_assert (a != 0);
	LEAVE_W (); nsync_mu_unlock (&mu);
}
void wait_b (void) {
	nsync_mu_lock (&mu); ENTER_W ();
	LEAVE_W (); nsync_mu_wait (&mu, &b_set, &b, 0); ENTER_W ();
	vf_assert (b != 0);
	LEAVE_W (); nsync_mu_unlock (&mu);
}
void rwait_a (void) {       /* reader-mode waiter on condition a */
	nsync_mu_rlock (&mu); ENTER_R ();
	LEAVE_R (); nsync_mu_wait (&mu, &a_set, &a, 0); ENTER_R ();
	vf_assert (a != 0);
	LEAVE_R (); nsync_mu_runlock (&mu);
}
void wait_a_eq1 (void) {    /* same function, different but equivalent args (condition_arg_eq) */
	nsync_mu_lock (&mu); ENTER_W ();
	LEAVE_W (); nsync_mu_wait (&mu, &a_set2, &dummy1, &int_eq); ENTER_W ();
	vf_assert (a != 0);
	LEAVE_W (); nsync_mu_unlock (&mu);
}
void wait_a_eq2 (void) {
	nsync_mu_lock (&mu); ENTER_W ();
	LEAVE_W (); nsync_mu_wait (&mu, &a_set2, &dummy2, &int_eq); ENTER_W ();
	vf_assert (a != 0);
	LEAVE_W (); nsync_mu_unlock (&mu);
}
void wait_b_timed (void) {  /* C05: 0 iff the condition is true at return; ETIMEDOUT only after the deadline; lock held in entry mode */
	long ds = (long) (vf_nondet () & 0xff);
	int r;
	nsync_mu_lock (&mu); ENTER_W ();
	LEAVE_W (); r = nsync_mu_wait_with_deadline (&mu, &b_set, &b, 0, nsync_time_s_ns (ds, 0), 0); ENTER_W ();
	vf_assert (r == 0 || r == ETIMEDOUT);
	vf_assert ((r == 0) == (b != 0));
	if (r == ETIMEDOUT) { vf_assert (vf_now_ge (ds, 0)); }
	LEAVE_W (); nsync_mu_unlock (&mu);
}
void set_a (void) { nsync_mu_lock (&mu); ENTER_W (); a = 1; LEAVE_W (); nsync_mu_unlock (&mu); }
void set_b (void) { nsync_mu_lock (&mu); ENTER_W (); b = 1; LEAVE_W (); nsync_mu_unlock (&mu); }
void set_ab (void) { nsync_mu_lock (&mu); ENTER_W (); a = 1; b = 1; LEAVE_W (); nsync_mu_unlock (&mu); }
void set_a_then_b (void) {
	nsync_mu_lock (&mu); ENTER_W (); a = 1; LEAVE_W (); nsync_mu_unlock (&mu);
	nsync_mu_lock (&mu); ENTER_W (); b = 1; LEAVE_W (); nsync_mu_unlock (&mu);
}
void touch_nowake (void) {  /* a section that changes nothing and ends with unlock_without_wakeup */
	nsync_mu_lock (&mu); ENTER_W (); LEAVE_W (); nsync_mu_unlock_without_wakeup (&mu);
}
void reader_pass (void) { nsync_mu_rlock (&mu); ENTER_R (); vf_yield (); LEAVE_R (); nsync_mu_runlock (&mu); }
void final_check (void) { vf_assert (writers == 0 && readers == 0); }
