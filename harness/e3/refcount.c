/* C13: the reference-count pattern: the thread that learns under the lock that it is the last user frees the
   memory holding the mutex as soon as its own unlock returns.  Any later access to the object by a thread still
   inside nsync_mu_unlock is a use-after-free (liveness is tracked per object by the memory model). */
#include "nsync.h"
#include "vf_api.h"
#include <stdlib.h>

struct obj { nsync_mu mu; int refs; int data; };
struct obj *o;

void setup2 (void) { o = (struct obj *) malloc (sizeof (*o)); vf_assume (o != 0); nsync_mu_init (&o->mu); o->refs = 2; o->data = 0; }
void setup3 (void) { o = (struct obj *) malloc (sizeof (*o)); vf_assume (o != 0); nsync_mu_init (&o->mu); o->refs = 3; o->data = 0; }

void user (void) {
	struct obj *p = o;
	int last;
	nsync_mu_lock (&p->mu);
	p->data++;
	last = (--p->refs == 0);
	nsync_mu_unlock (&p->mu);
	if (last) { free (p); }
}
void ruser (void) {          /* takes a look in read mode first, then drops its reference in write mode */
	struct obj *p = o;
	int last;
	nsync_mu_rlock (&p->mu);
	(void) p->data;
	nsync_mu_runlock (&p->mu);
	nsync_mu_lock (&p->mu);
	last = (--p->refs == 0);
	nsync_mu_unlock (&p->mu);
	if (last) { free (p); }
}
