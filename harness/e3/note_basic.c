/* C08 / C09: notes. */
#include "nsync.h"
#include "vf_api.h"
nsync_note root, child, grand;
int seen_child;

void setup_tree (void) {
	root = nsync_note_new (0, nsync_time_no_deadline);
	child = nsync_note_new (root, nsync_time_no_deadline);
	grand = nsync_note_new (child, nsync_time_no_deadline);
	vf_assume (root != 0 && child != 0 && grand != 0);
}
void setup_pair (void) {
	root = nsync_note_new (0, nsync_time_no_deadline);
	child = nsync_note_new (root, nsync_time_no_deadline);
	vf_assume (root != 0 && child != 0);
}
void notify_root (void) {
	nsync_note_notify (root);
	vf_assert (nsync_note_is_notified (root));
}
void setup_single (void) { root = nsync_note_new (0, nsync_time_no_deadline); vf_assume (root != 0); }
void wait_root_timed_lean (void) { (void) nsync_note_wait (root, nsync_time_s_ns (5, 0)); }   /* C13 quick: a single note, only the memory-safety oracle */
void notify_root_only (void) { nsync_note_notify (root); }
void notify_child (void) {
	nsync_note_notify (child);
	vf_assert (nsync_note_is_notified (child));
}
void poll_child (void) {          /* once seen notified, never un-notified */
	int a = nsync_note_is_notified (child);
	vf_yield ();
	{ int b = nsync_note_is_notified (child); vf_assert (!a || b); }
}
void wait_child (void) {
	int r = nsync_note_wait (child, nsync_time_no_deadline);
	vf_assert (r != 0);
	vf_assert (nsync_note_is_notified (child));
}
void wait_grand (void) {
	int r = nsync_note_wait (grand, nsync_time_no_deadline);
	vf_assert (r != 0);
}
void wait_child_timed (void) {      /* C13: the wait may end by its deadline while the notifier is walking the waiter list */
	long ds = (long) (vf_nondet () & 0xff);
	int r = nsync_note_wait (child, nsync_time_s_ns (ds, 0));
	if (r != 0) { vf_assert (nsync_note_is_notified (child)); }
}
void wait_child_timed_lean (void) { (void) nsync_note_wait (child, nsync_time_s_ns (5, 0)); }   /* C13 quick: only the memory-safety oracle */
void free_child (void) { nsync_note_free (child); }
void free_grand (void) { nsync_note_free (grand); }
void free_root (void) { nsync_note_free (root); }
void final_nothing (void) { }
void new_under_root (void) {
	nsync_note n = nsync_note_new (root, nsync_time_no_deadline);
	vf_assume (n != 0);
	grand = n;            /* (pair set-up) remember it for the final check */
}
void final_pair_notified (void) {
	vf_assert (nsync_note_is_notified (root));
	vf_assert (nsync_note_is_notified (child));   /* every descendant notified once no notify is in progress */
}
void final_tree_notified (void) {
	vf_assert (nsync_note_is_notified (root) && nsync_note_is_notified (child) && nsync_note_is_notified (grand));
}
void final_new_child_notified (void) {
	vf_assert (nsync_note_is_notified (root));
	vf_assert (nsync_note_is_notified (grand));   /* the note created under root concurrently with notify(root) */
}
void final_after_free_child (void) {
	/* child was freed: grand was adopted by root, so notifying root reaches it */
	nsync_note_notify (root);
	vf_assert (nsync_note_is_notified (grand));
}
void final_siblings (void) { vf_assert (!nsync_note_is_notified (root)); }
