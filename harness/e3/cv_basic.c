/* C01 / C04 / C05 scenarios on one mutex + one condition variable.
 * "count" is a resource counter protected by mu; signallers add one resource and issue ONE wake-up.
 * Waiters take one resource.  A swallowed or lost wake-up leaves a waiter asleep with count > 0 and nobody
 * left to wake it: the scheduler's deadlock oracle reports it.  Shadow occupancy counters check C01 on every
 * acquisition, including the implicit re-acquisition on return from the wait. */
#include "nsync.h"
#include "vf_api.h"
#include <errno.h>

nsync_mu mu;
nsync_cv cv;
int count;
int writers, readers;
int given_up;

#define ENTER_W() do { writers++; vf_assert (writers == 1 && readers == 0); } while (0)
#define LEAVE_W() do { vf_assert (writers == 1 && readers == 0); writers--; } while (0)
#define ENTER_R() do { readers++; vf_assert (writers == 0); } while (0)
#define LEAVE_R() do { vf_assert (writers == 0); readers--; } while (0)

/* plain waiter: takes one resource */
void waiter_plain (void) {
	nsync_mu_lock (&mu);
	ENTER_W ();
	while (count == 0) {
		LEAVE_W ();
		nsync_cv_wait (&cv, &mu);
		ENTER_W ();
	}
	count--;
	LEAVE_W ();
	nsync_mu_unlock (&mu);
}

/* timed waiter with a solver-chosen deadline.  A wake-up (r == 0) makes it use the resource and pass it on
   (count++ ; signal); on ETIMEDOUT it gives up WITHOUT looking at count again - so a wake-up that it consumed but
   that was reported as a timeout is lost for everybody and a plain waiter queued behind it sleeps for ever. */
void waiter_timed (void) {
	long ds = (long) (vf_nondet () & 0xff);
	nsync_time dl = nsync_time_s_ns (ds, 0);
	int r = 0;
	nsync_mu_lock (&mu);
	ENTER_W ();
	while (count == 0 && r == 0) {
		LEAVE_W ();
		r = nsync_cv_wait_with_deadline (&cv, &mu, dl, NULL);
		ENTER_W ();
		vf_assert (r == 0 || r == ETIMEDOUT);
		if (r == ETIMEDOUT) { vf_assert (vf_now_ge (ds, 0)); }      /* C05: ETIMEDOUT only once the deadline has been reached */
	}
	if (r == 0) {
		count--;              /* use the resource ... */
		count++;              /* ... and hand it on */
		nsync_cv_signal (&cv);
	} else {
		given_up++;
	}
	LEAVE_W ();
	nsync_mu_unlock (&mu);
}

/* reader-mode waiter: waits until a resource exists (does not take it) */
void waiter_reader (void) {
	nsync_mu_rlock (&mu);
	ENTER_R ();
	while (count == 0) {
		LEAVE_R ();
		nsync_cv_wait (&cv, &mu);
		ENTER_R ();
	}
	LEAVE_R ();
	nsync_mu_runlock (&mu);
}

void signal_inside (void) {
	nsync_mu_lock (&mu);
	ENTER_W ();
	count++;
	nsync_cv_signal (&cv);
	LEAVE_W ();
	nsync_mu_unlock (&mu);
}

void signal_after (void) {
	nsync_mu_lock (&mu);
	ENTER_W ();
	count++;
	LEAVE_W ();
	nsync_mu_unlock (&mu);
	nsync_cv_signal (&cv);
}

void broadcast_inside (void) {
	nsync_mu_lock (&mu);
	ENTER_W ();
	count += 2;
	nsync_cv_broadcast (&cv);
	LEAVE_W ();
	nsync_mu_unlock (&mu);
}

void broadcast_after (void) {
	nsync_mu_lock (&mu);
	ENTER_W ();
	count += 2;
	LEAVE_W ();
	nsync_mu_unlock (&mu);
	nsync_cv_broadcast (&cv);
}

/* a signaller that holds the mutex only in read mode while signalling (legal: the cv does not require the lock) */
void signal_as_reader (void) {
	nsync_mu_lock (&mu);
	ENTER_W ();
	count++;
	LEAVE_W ();
	nsync_mu_unlock (&mu);
	nsync_mu_rlock (&mu);
	ENTER_R ();
	nsync_cv_signal (&cv);
	LEAVE_R ();
	nsync_mu_runlock (&mu);
}

void reader_section (void) {
	nsync_mu_rlock (&mu);
	ENTER_R ();
	vf_yield ();
	LEAVE_R ();
	nsync_mu_runlock (&mu);
}

void final_check (void) {
	vf_assert (writers == 0 && readers == 0);
	vf_assert (count >= 0);
}
