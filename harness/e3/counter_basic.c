/* C10: the counter is atomic and its waiters are released exactly at zero. */
#include "nsync_cpp.h"
#include "platform.h"
#include "compiler.h"
#include "cputype.h"
#include "nsync.h"
#include "dll.h"
#include "sem.h"
#include "wait_internal.h"
#include "vf_api.h"
#include <errno.h>
nsync_counter c;
int ghost;                   /* the counter as an integer, updated by the harness around each add */
int reached_zero;

void setup (void) { c = nsync_counter_new (2); ghost = 2; vf_assume (c != 0); }

void dec (void) {
	uint32_t v = nsync_counter_add (c, -1);
	vf_assert (v <= 1);                       /* started at 2, two decrementers: results are 1 and 0 in some order */
	if (v == 0) { reached_zero = 1; }
}
void dec_twice (void) {
	uint32_t v1 = nsync_counter_add (c, -1);
	uint32_t v2;
	vf_assert (v1 == 1);
	v2 = nsync_counter_add (c, -1);
	vf_assert (v2 == 0);
	reached_zero = 1;
}
void waiter (void) {
	uint32_t r = nsync_counter_wait (c, nsync_time_no_deadline);
	vf_assert (r == 0);
	vf_assert (nsync_counter_value (c) == 0);  /* returns 0 only if the counter has reached zero */
}
void waiter_timed (void) {
	long ds = (long) (vf_nondet () & 0xff);
	uint32_t r = nsync_counter_wait (c, nsync_time_s_ns (ds, 0));
	if (r != 0) { vf_assert (vf_now_ge (ds, 0)); }    /* non-zero only once the deadline has passed */
	else { vf_assert (nsync_counter_value (c) == 0); }
}
void reader (void) {
	uint32_t v = nsync_counter_value (c);
	vf_assert (v <= 2);
	vf_yield ();
	vf_assert (nsync_counter_value (c) <= v);  /* only decrements happen */
}
void late_waiter (void) {
	/* a wait that starts after zero does not block */
	if (nsync_counter_value (c) == 0) {
		uint32_t r = nsync_counter_wait (c, nsync_time_no_deadline);
		vf_assert (r == 0);
	}
}
/* a PASSIVE waiter: a record registered on the counter through the waitable interface by the set-up code, standing for a
   thread that waits without deadline.  "Every thread waiting when the counter reaches zero is released": its flag must be
   cleared by the add that reaches zero, whatever a timed waiter queued behind it does meanwhile. */
struct nsync_waiter_s passive;
nsync_semaphore passive_sem;
void setup_passive (void) {
	c = nsync_counter_new (1); vf_assume (c != 0);
	passive.tag = 0; passive.flags = 0; passive.sem = &passive_sem;
	nsync_dll_init_ (&passive.q, &passive);
	*(unsigned *) &passive.waiting = 0;
	nsync_mu_semaphore_init (&passive_sem);
	vf_assert ((*nsync_counter_waitable_funcs.enqueue) (c, &passive) != 0);
}
void dec_once (void) { uint32_t v = nsync_counter_add (c, -1); vf_assert (v == 0); }
void waiter_timed1 (void) {
	long ds = (long) (vf_nondet () & 0xff);
	uint32_t r = nsync_counter_wait (c, nsync_time_s_ns (ds, 0));
	if (r != 0) { vf_assert (vf_now_ge (ds, 0)); }
	else { vf_assert (nsync_counter_value (c) == 0); }
}
void final_passive (void) {
	vf_assert (nsync_counter_value (c) == 0);
	vf_assert (*(unsigned *) &passive.waiting == 0);     /* released exactly at zero */
}
void final_check (void) { vf_assert (nsync_counter_value (c) == 0); nsync_counter_free (c); }
