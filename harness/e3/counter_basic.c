/* C10: the counter is atomic and its waiters are released exactly at zero. */
#include "nsync.h"
#include "vf_api.h"
#include <errno.h>
nsync_counter c;
int ghost;                   /* the counter as an integer, updated by the harness around each add */
int reached_zero;

void setup (void) { c = nsync_counter_new (2); ghost = 2; vf_assume (c != 0); }

void dec (void) {
	uint32_t v = nsync_counter_add (c, -1);
	vf_assert (v <= 1);                       /* started at 2, two decrementers: results are 1 and 0 in some order */
	if (v == 0) { reached_zero = 1; }
}
void dec_twice (void) {
	uint32_t v1 = nsync_counter_add (c, -1);
	uint32_t v2;
	vf_assert (v1 == 1);
	v2 = nsync_counter_add (c, -1);
	vf_assert (v2 == 0);
	reached_zero = 1;
}
void waiter (void) {
	uint32_t r = nsync_counter_wait (c, nsync_time_no_deadline);
	vf_assert (r == 0);
	vf_assert (nsync_counter_value (c) == 0);  /* returns 0 only if the counter has reached zero */
}
void waiter_timed (void) {
	long ds = (long) (vf_nondet () & 0xff);
	uint32_t r = nsync_counter_wait (c, nsync_time_s_ns (ds, 0));
	if (r != 0) { vf_assert (vf_now_ge (ds, 0)); }    /* non-zero only once the deadline has passed */
	else { vf_assert (nsync_counter_value (c) == 0); }
}
void reader (void) {
	uint32_t v = nsync_counter_value (c);
	vf_assert (v <= 2);
	vf_yield ();
	vf_assert (nsync_counter_value (c) <= v);  /* only decrements happen */
}
void late_waiter (void) {
	/* a wait that starts after zero does not block */
	if (nsync_counter_value (c) == 0) {
		uint32_t r = nsync_counter_wait (c, nsync_time_no_deadline);
		vf_assert (r == 0);
	}
}
void final_check (void) { vf_assert (nsync_counter_value (c) == 0); nsync_counter_free (c); }
