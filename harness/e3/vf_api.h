/* Harness-side API of the seqcc engine (calls are recognised by the translator). */
#ifndef VF_API_H_
#define VF_API_H_
extern void vf_assert (int c);        /* property assertion */
extern void vf_assume (int c);
extern void vf_yield (void);          /* a point where a context switch may happen */
extern unsigned vf_nondet (void);     /* a solver-chosen value */
extern unsigned vf_now_ge (long s, long ns);   /* virtual clock >= (s, ns)? */
#endif
