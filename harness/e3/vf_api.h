/* Harness-side API of the seqcc engine (calls are recognised by the translator). */
#ifndef VF_API_H_
#define VF_API_H_
extern void vf_assert_at (int c, int line);
#define vf_assert(c) vf_assert_at ((c), __LINE__)        /* property assertion (reported with its source line) */
extern void vf_assume (int c);
extern void vf_yield (void);          /* a point where a context switch may happen */
extern unsigned vf_nondet (void);     /* a solver-chosen value (also a scheduling point) */
extern unsigned vf_nondet_nv (void);  /* a solver-chosen value, no scheduling point */
extern unsigned vf_now_ge (long s, long ns);   /* virtual clock >= (s, ns)? */
#endif
