/* Native side of vf_harness.h: looks inputs up by name in $VF_REPLAY_FILE ("name value" lines in trace order).
 * A VF_IN site that executes several times consumes successive lines with its name. */
#include <stdio.h>
#include <stdlib.h>
#include <string.h>
#define MAXN 256
static const char *names[MAXN];
static char *cursor[MAXN];
static int nnames;
long long vf_replay_get (const char *name, int idx) {
	static char *buf = NULL;
	char key[256];
	char *p;
	size_t kl;
	int i, slot = -1;
	if (buf == NULL) {
		const char *fn = getenv ("VF_REPLAY_FILE");
		FILE *f = fn ? fopen (fn, "r") : NULL;
		long n;
		if (f == NULL) { fprintf (stderr, "no replay file\n"); exit (78); }
		fseek (f, 0, SEEK_END); n = ftell (f); fseek (f, 0, SEEK_SET);
		buf = (char *) malloc (n + 2);
		buf[0] = '\n';
		if (fread (buf + 1, 1, n, f) != (size_t) n) { exit (78); }
		buf[n + 1] = 0;
		fclose (f);
	}
	if (idx >= 0) { snprintf (key, sizeof (key), "\n%s[%d] ", name, idx); }
	else { snprintf (key, sizeof (key), "\n%s ", name); }
	kl = strlen (key);
	for (i = 0; i < nnames; i++) { if (strcmp (names[i], key) == 0) { slot = i; } }
	if (slot < 0 && nnames < MAXN) { slot = nnames++; names[slot] = strdup (key); cursor[slot] = buf; }
	p = strstr (slot >= 0 ? cursor[slot] : buf, key);
	if (p == NULL) { return 0; }   /* input not constrained by the counterexample */
	if (slot >= 0) { cursor[slot] = p + kl; }
	if (p[kl] == '-') { return strtoll (p + kl, NULL, 0); }
	return (long long) strtoull (p + kl, NULL, 0);
}
