/* Harness support shared by all sequential (E1/E2) harnesses.
 *
 * Under CBMC every VF_IN* is a nondeterministic value (a solver variable); the
 * property is VF_ASSERT; documented preconditions are VF_ASSUME.
 * With -DVF_REPLAY the same harness is an ordinary program: the inputs are read
 * by name from the replay file ($VF_REPLAY_FILE, "name value" lines) written from
 * the solver's counterexample, VF_ASSERT exits 99, VF_ASSUME exits 77.
 */
#ifndef VF_HARNESS_H_
#define VF_HARNESS_H_
#include <stdint.h>
#include <stddef.h>

#ifdef VF_REPLAY
#include <stdio.h>
#include <stdlib.h>
#include <string.h>
long long vf_replay_get (const char *name, int idx);
#define VF_IN(T, name) T name = (T) vf_replay_get (#name, -1)
#define VF_IN_ARR(T, name, n) T name[n]; { int vf_i_; for (vf_i_ = 0; vf_i_ < (int) (n); vf_i_++) { name[vf_i_] = (T) vf_replay_get (#name, vf_i_); } }
#define VF_SET(lv, T, tag) (lv) = (T) vf_replay_get (tag, -1)
#define VF_ASSUME(c) do { if (!(c)) { fprintf (stderr, "VF_ASSUME failed: %s (%s:%d)\n", #c, __FILE__, __LINE__); exit (77); } } while (0)
#define VF_ASSERT(c, msg) do { if (!(c)) { fprintf (stderr, "VF_ASSERT failed: %s (%s:%d)\n", msg, __FILE__, __LINE__); exit (99); } } while (0)
#define VF_WITNESS() do { } while (0)
#else
unsigned long long nondet_u64 (void);
#define VF_IN(T, name) T name = (T) nondet_u64 ()
#define VF_IN_ARR(T, name, n) T name[n]; { int vf_i_; for (vf_i_ = 0; vf_i_ < (int) (n); vf_i_++) { name[vf_i_] = (T) nondet_u64 (); } }
#define VF_ASSUME(c) __CPROVER_assume (c)
#define VF_ASSERT(c, msg) __CPROVER_assert ((c), msg)
#ifdef WITNESS
#define VF_WITNESS() __CPROVER_assert (0, "WITNESS reachable")
#else
#define VF_WITNESS() do { } while (0)
#endif
#endif

#endif
