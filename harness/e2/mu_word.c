/* E2: rely/guarantee step check of the mutex-word protocol (C01, C05 lock mode at return, C14, C16 "only observes").
 *
 * The function under test runs sequentially on the real code; before each of its atomic accesses to MU.word the
 * environment replaces the word by ANY value allowed by the rely (all other threads together, any number of them,
 * any history), at most ENV_STEPS times per call; every write the function makes to the word is checked against the
 * guarantee.  Guarantee == the statement of C01 at the level of the word:
 *   - the writer bit is added only from a word without writer bit and reader count 0 by a thread that holds nothing
 *     (or by the last reader converting itself while it evaluates conditions); it is removed only by its holder;
 *   - the reader count is incremented only from a word without writer bit by a thread that holds nothing, and
 *     decremented (by exactly one) only by a thread that holds a read lock;
 *   - the queue spinlock is taken only when clear and released only by its holder;
 *   - nothing else about the lock bits changes: in particular a thread that holds only the spinlock changes no lock bit.
 * Since every thread's every step satisfies the guarantee from any state satisfying the rely, and rely is implied by
 * the others' guarantees, "at most one writer and no reader, or readers and no writer" is an inductive invariant for
 * any number of threads and any schedule. */
#include "vf_harness.h"
#include "nsync_cpp.h"
#include "platform.h"
#include "compiler.h"
#include "cputype.h"
#include "nsync.h"
#include "dll.h"
#include "sem.h"
#include "wait_internal.h"
#include "common.h"
#include "atomic.h"

#ifndef ENV_STEPS
#define ENV_STEPS 3
#endif
#ifndef NQ
#define NQ 2          /* waiters already queued on the mutex */
#endif

nsync_mu MU;
nsync_cv CV;
enum { M_NONE = 0, M_R = 1, M_W = 2 };
static int g_mode;            /* what the thread under test holds according to the protocol */
static int g_spin;            /* it holds the queue spinlock */
static int g_desig;           /* it has been woken and has neither acquired nor slept again */
static int env_left = ENV_STEPS;
static int spins;
static int sem_waits;         /* number of times the thread slept on its semaphore inside this call */
static int long_wait_seen;    /* the word contained MU_LONG_WAIT set by this thread */
static waiter Q[NQ + 1];
static waiter *me;            /* the waiter record the thread under test is queued with, if any */
static int c14_waited;        /* the thread under test has slept on the mutex at least once (C14) */

#define READERS(w) ((w) >> 8)
static int inv (uint32_t w) { return !((w & MU_WLOCK) != 0 && READERS (w) != 0); }
static int rely_ok (uint32_t w) {
	if (!inv (w)) { return 0; }
	if (g_mode == M_W && !((w & MU_WLOCK) != 0 && READERS (w) == 0)) { return 0; }
	if (g_mode == M_R && !((w & MU_WLOCK) == 0 && READERS (w) >= 1)) { return 0; }
	if (g_spin && (w & MU_SPINLOCK) == 0) { return 0; }
	if (READERS (w) > 0x7fffff) { return 0; }                      /* no reader-count overflow (2^23 threads) */
#ifdef LONG_WAIT_RELY
	/* C14: only the thread that set MU_LONG_WAIT clears it, and it does so when it acquires */
	if (long_wait_seen && (w & MU_LONG_WAIT) == 0) { return 0; }
#endif
	return 1;
}

static void env_step (void) {
	VF_IN (uint8_t, env_act);
	if (env_left > 0 && env_act != 0) {
		VF_IN (uint32_t, env_word);
		VF_ASSUME (rely_ok (env_word));
		env_left--;
		*NSYNC_ATOMIC_UINT32_PTR_ (&MU.word) = env_word;
	}
}

static void guarantee (uint32_t o, uint32_t n) {
	int taken_w = (o & MU_WLOCK) == 0 && (n & MU_WLOCK) != 0;
	int dropped_w = (o & MU_WLOCK) != 0 && (n & MU_WLOCK) == 0;
	uint32_t ro = READERS (o), rn = READERS (n);
	VF_ASSERT (inv (n), "C01: word never shows a writer together with readers");
	if (taken_w) {
		if (g_mode == M_R) {
			VF_ASSERT (ro == 1 && rn == 0, "C01: only the last reader may convert itself into the writer");
		} else {
			VF_ASSERT (g_mode == M_NONE && ro == 0 && rn == 0, "C01: writer bit added only to a free mutex by a thread holding nothing");
		}
		g_mode = M_W; g_desig = 0;
	} else if (dropped_w) {
		VF_ASSERT (g_mode == M_W, "C01: writer bit removed only by the writer");
		VF_ASSERT (rn == 0, "C01: releasing the writer bit does not create readers");
		g_mode = M_NONE;
	} else if (rn == ro + 1) {
		VF_ASSERT ((o & MU_WLOCK) == 0 && g_mode == M_NONE, "C01: reader count incremented only without a writer, by a thread holding nothing");
		g_mode = M_R; g_desig = 0;
	} else if (rn + 1 == ro) {
		VF_ASSERT (g_mode == M_R, "C01: reader count decremented only by a reader");
		g_mode = M_NONE;
	} else {
		VF_ASSERT (rn == ro, "C01: the reader count changes by exactly one per acquisition or release (a stale word was written back)");
	}
	if ((o & MU_SPINLOCK) == 0 && (n & MU_SPINLOCK) != 0) {
		VF_ASSERT (!g_spin, "spinlock taken twice"); g_spin = 1;
	} else if ((o & MU_SPINLOCK) != 0 && (n & MU_SPINLOCK) == 0) {
		VF_ASSERT (g_spin, "C01/C16: queue spinlock released only by its holder"); g_spin = 0;
	}
#ifdef C14_CHECK
	if ((n & MU_LONG_WAIT) != 0 && (o & MU_LONG_WAIT) == 0) { long_wait_seen = 1; }
	if ((o & MU_LONG_WAIT) != 0 && (n & MU_LONG_WAIT) == 0) {
		VF_ASSERT (long_wait_seen && (taken_w || rn == ro + 1), "C14: MU_LONG_WAIT is cleared only by the thread that set it, when it acquires");
		long_wait_seen = 0;
	}
	if (!c14_waited && (o & MU_LONG_WAIT) != 0) {
		VF_ASSERT (!taken_w && rn != ro + 1, "C14: a thread that has not waited never acquires while MU_LONG_WAIT is set");
	}
#endif
}

static int is_word (nsync_atomic_uint32_ *p) { return p == &MU.word; }
static int waiting_loads;

uint32_t vf_e2_load (nsync_atomic_uint32_ *p) {
	if (is_word (p)) { env_step (); return *NSYNC_ATOMIC_UINT32_PTR_ (p); }
	if (me != NULL && p == &me->nw.waiting && *NSYNC_ATOMIC_UINT32_PTR_ (p) != 0) {
		/* the environment wakes the thread: it unlinks the record (under the spinlock it holds then) and clears the flag */
		VF_IN (uint8_t, woken);
		if (woken != 0 || waiting_loads >= 1) {
			MU.waiters = nsync_remove_from_mu_queue_ (MU.waiters, &me->nw.q);
			*NSYNC_ATOMIC_UINT32_PTR_ (p) = 0;
			g_desig = 1;
		}
		waiting_loads++;
	}
	return *NSYNC_ATOMIC_UINT32_PTR_ (p);
}
int vf_e2_cas (nsync_atomic_uint32_ *p, uint32_t o, uint32_t n) {
	if (is_word (p)) {
		env_step ();
		if (*NSYNC_ATOMIC_UINT32_PTR_ (p) != o) { return 0; }
		guarantee (o, n);
		*NSYNC_ATOMIC_UINT32_PTR_ (p) = n;
		return 1;
	}
	if (*NSYNC_ATOMIC_UINT32_PTR_ (p) != o) { return 0; }
	*NSYNC_ATOMIC_UINT32_PTR_ (p) = n;
	return 1;
}
void vf_e2_store (nsync_atomic_uint32_ *p, uint32_t v) {
	if (is_word (p)) {
		env_step ();
		guarantee (*NSYNC_ATOMIC_UINT32_PTR_ (p), v);
	}
	if (p != &MU.word && p != &CV.word && v == 1) {
		/* ATM_STORE (&w->nw.waiting, 1) is the only atomic store of 1: the record the thread is about to queue itself with */
		me = CONTAINER (waiter, nw, CONTAINER (struct nsync_waiter_s, waiting, p));
		waiting_loads = 0;
	}
	*NSYNC_ATOMIC_UINT32_PTR_ (p) = v;
}

/* ---- platform stubs ---- */
void nsync_mu_semaphore_init (nsync_semaphore *s) { (void) s; }
void nsync_mu_semaphore_p (nsync_semaphore *s) { (void) s; sem_waits++; }
int nsync_mu_semaphore_p_with_deadline (nsync_semaphore *s, nsync_time d) { VF_IN (uint8_t, timedout); (void) s; (void) d; sem_waits++; return timedout ? ETIMEDOUT : 0; }
void nsync_mu_semaphore_v (nsync_semaphore *s) { (void) s; }
void nsync_yield_ (void) { }
void nsync_panic_ (const char *s) { (void) s; VF_ASSERT (0, "nsync_panic_ reached"); VF_ASSUME (0); }
void *nsync_per_thread_waiter_ (void (*d) (void *)) { (void) d; return NULL; }
void nsync_set_per_thread_waiter_ (void *v, void (*d) (void *)) { (void) v; (void) d; }
unsigned nsync_spin_delay_ (unsigned attempts) { spins++; VF_ASSUME (spins <= ENV_STEPS + 2); return attempts; }
int clock_gettime (clockid_t c, struct timespec *ts) { (void) c; ts->tv_sec = 100; ts->tv_nsec = 0; return 0; }

/* ---- set-up: an arbitrary well-formed queue of NQ waiters, an arbitrary word consistent with what the thread holds ---- */
static int cond_flag[2];
static int cond_fn_plain (const void *v) { return *(const int *) v; }
static int cond_fn (const void *v) { VF_ASSERT (g_mode == M_W, "C06: a waiter's condition is evaluated only by a thread holding the mutex in write mode (writer or converted last reader)"); return *(const int *) v; }
static void init_waiter (waiter *w) {
	memset (w, 0, sizeof (*w));
	w->tag = WAITER_TAG; w->nw.tag = NSYNC_WAITER_TAG; w->nw.sem = &w->sem;
	nsync_dll_init_ (&w->nw.q, &w->nw);
	w->nw.flags = NSYNC_WAITER_FLAG_MUCV;
	nsync_dll_init_ (&w->same_condition, w);
	w->flags = WAITER_RESERVED;
}
static void setup (int mode) {
	int i;
	VF_IN (uint32_t, word0);
	VF_IN (uint8_t, nq);
	nsync_mu_init (&MU); nsync_cv_init (&CV);
	g_mode = mode; g_spin = 0;
	VF_ASSUME (nq <= NQ);
	for (i = 0; i <= NQ; i++) { init_waiter (&Q[i]); }
	for (i = 0; i < NQ; i++) {
		if (i < nq) {
			VF_IN (uint8_t, q_reader); VF_IN (uint8_t, q_cond);
			Q[i].l_type = q_reader ? nsync_reader_type_ : nsync_writer_type_;
			*NSYNC_ATOMIC_UINT32_PTR_ (&Q[i].nw.waiting) = 1;
			if (q_cond) { VF_IN (uint8_t, q_val); cond_flag[i] = q_val & 1; Q[i].cond.f = &cond_fn; Q[i].cond.v = &cond_flag[i]; }
			MU.waiters = nsync_dll_make_last_in_list_ (MU.waiters, &Q[i].nw.q);
		}
	}
	VF_ASSUME (rely_ok (word0));
	VF_ASSUME ((word0 & MU_SPINLOCK) == 0 || 1);
	/* the hint bits agree with the queue as far as the code relies on it: conditions present => MU_CONDITION, queue non-empty => MU_WAITING */
	VF_ASSUME (nq == 0 || (word0 & MU_WAITING) != 0);
	VF_ASSUME ((Q[0].cond.f == NULL && Q[1].cond.f == NULL) || (word0 & MU_CONDITION) != 0);
	*NSYNC_ATOMIC_UINT32_PTR_ (&MU.word) = word0;
}
/* the thread's own waiter: nsync_waiter_new_ is real code; its per-thread cache is pre-seeded with Q[NQ] */

void h_lock (void) { setup (M_NONE); nsync_mu_lock (&MU); VF_ASSERT (g_mode == M_W && !g_spin, "lock returns holding exactly the write lock"); VF_WITNESS (); }
void h_rlock (void) { setup (M_NONE); nsync_mu_rlock (&MU); VF_ASSERT (g_mode == M_R && !g_spin, "rlock returns holding exactly a read lock"); VF_WITNESS (); }
void h_trylock (void) { int r; setup (M_NONE); r = nsync_mu_trylock (&MU); VF_ASSERT ((r != 0) == (g_mode == M_W) && (r != 0 || g_mode == M_NONE) && !g_spin, "trylock result == whether the write lock is held"); VF_ASSERT (sem_waits == 0 && spins == 0, "trylock never blocks"); VF_WITNESS (); }
void h_rtrylock (void) { int r; setup (M_NONE); r = nsync_mu_rtrylock (&MU); VF_ASSERT ((r != 0) == (g_mode == M_R) && (r != 0 || g_mode == M_NONE) && !g_spin, "rtrylock result == whether a read lock is held"); VF_ASSERT (sem_waits == 0 && spins == 0, "rtrylock never blocks"); VF_WITNESS (); }
void h_unlock (void) { setup (M_W); nsync_mu_unlock (&MU); VF_ASSERT (g_mode == M_NONE && !g_spin, "unlock returns holding nothing"); VF_WITNESS (); }
void h_runlock (void) { setup (M_R); nsync_mu_runlock (&MU); VF_ASSERT (g_mode == M_NONE && !g_spin, "runlock returns holding nothing"); VF_WITNESS (); }
void h_unlock_nowake (void) { setup (M_W); nsync_mu_unlock_without_wakeup (&MU); VF_ASSERT (g_mode == M_NONE && !g_spin, "unlock_without_wakeup returns holding nothing"); VF_WITNESS (); }
void h_lock_slow_desig (void) {      /* the re-acquisition path of cv / mu waits: designated waker, either mode */
	VF_IN (uint8_t, rd);
	setup (M_NONE);
	init_waiter (&Q[NQ]); Q[NQ].flags |= WAITER_IN_USE;
	nsync_mu_lock_slow_ (&MU, &Q[NQ], MU_DESIG_WAKER, rd ? nsync_reader_type_ : nsync_writer_type_);
	VF_ASSERT (g_mode == (rd ? M_R : M_W) && !g_spin, "lock_slow returns holding the requested mode");
	VF_WITNESS ();
}
void h_mu_wait (void) {              /* C05: returns with the mutex held in the mode of entry, under any interference, timeout or not */
	VF_IN (uint8_t, rd); VF_IN (uint8_t, timed);
	static int never; int r;
	setup (rd ? M_R : M_W);
	r = nsync_mu_wait_with_deadline (&MU, &cond_fn_plain, &never, NULL, timed ? nsync_time_s_ns (50, 0) : nsync_time_no_deadline, NULL);
	VF_ASSERT (g_mode == (rd ? M_R : M_W) && !g_spin, "C05: mu_wait returns holding the mutex in the mode of entry");
	VF_ASSERT (r == 0 || r == ETIMEDOUT, "mu_wait result");
	VF_WITNESS ();
}
void h_cv_wait (void) {
	VF_IN (uint8_t, rd); VF_IN (uint8_t, timed);
	setup (rd ? M_R : M_W);
	(void) nsync_cv_wait_with_deadline (&CV, &MU, timed ? nsync_time_s_ns (50, 0) : nsync_time_no_deadline, NULL);
	VF_ASSERT (g_mode == (rd ? M_R : M_W) && !g_spin, "C05: cv_wait returns holding the mutex in the mode of entry");
	VF_WITNESS ();
}
void h_debug (void) {                /* C16: the debug-state functions only observe */
	VF_IN (uint8_t, which);
	char buf[4];
	setup (M_NONE);
	if (which & 1) { nsync_mu_debug_state_and_waiters (&MU, buf, 0); } else { nsync_mu_debug_state (&MU, buf, 0); }
	VF_ASSERT (g_mode == M_NONE && !g_spin, "debug state returns holding nothing");
	VF_WITNESS ();
}
#ifdef VF_REPLAY
int main (void) { HFUNC (); return 0; }
#endif
