/* C18: nsync_time arithmetic is exact on normalized values.
 * Real units: platform/posix/src/time_rep.c, internal/time_internal.c.
 * Reference: 128-bit integer arithmetic on seconds*1e9+nanoseconds. */
#include "vf_harness.h"
#include "nsync_cpp.h"
#include "platform.h"
#include "compiler.h"
#include "cputype.h"
#include "nsync_time.h"

#define NS 1000000000
/* For normalized values (0 <= nsec < 1e9) the map (sec, nsec) -> sec*1e9+nsec is a bijection onto the integers that
   preserves order lexicographically, so "agrees with integer arithmetic on sec*1e9+nsec" is stated on the pair:
   sum   = (as+bs+c, an+bn-c*1e9) with c = floor((an+bn)/1e9) in {0,1};
   diff  = (as-bs-w, an-bn+w*1e9) with w = (an < bn);
   order = lexicographic.  No 128-bit products are needed (they stall every SAT back end, measured). */
#define SEC_BOUND ((int64_t) 1 << 61)   /* "barring overflow of the seconds field": |sec| <= 2^61, so no sum of two overflows */

static int normalized (nsync_time t) { return NSYNC_TIME_NSEC (t) >= 0 && NSYNC_TIME_NSEC (t) < NS; }

#define IN_TIME(t, s, n) VF_IN (int64_t, s); VF_IN (int64_t, n); nsync_time t; t.tv_sec = s; t.tv_nsec = n; VF_ASSUME (n >= 0 && n < NS)
#define BOUNDED(s) VF_ASSUME ((s) >= -SEC_BOUND && (s) <= SEC_BOUND)

void h_add (void) {
	IN_TIME (a, a_s, a_n);
	IN_TIME (b, b_s, b_n);
	BOUNDED (a_s); BOUNDED (b_s);
	int64_t c = (a_n + b_n >= NS);
	nsync_time r = nsync_time_add (a, b);
	VF_ASSERT (normalized (r), "add result normalized");
	VF_ASSERT (r.tv_sec == a_s + b_s + c && r.tv_nsec == a_n + b_n - c * NS, "add agrees with integer arithmetic");
	VF_WITNESS ();
}

void h_sub (void) {
	IN_TIME (a, a_s, a_n);
	IN_TIME (b, b_s, b_n);
	BOUNDED (a_s); BOUNDED (b_s);
	int64_t w = (a_n < b_n);
	nsync_time r = nsync_time_sub (a, b);
	VF_ASSERT (normalized (r), "sub result normalized");
	VF_ASSERT (r.tv_sec == a_s - b_s - w && r.tv_nsec == a_n - b_n + w * NS, "sub agrees with integer arithmetic");
	VF_WITNESS ();
}

void h_addsub (void) {
	IN_TIME (a, a_s, a_n);
	IN_TIME (b, b_s, b_n);
	BOUNDED (a_s); BOUNDED (b_s);
	nsync_time r = nsync_time_sub (nsync_time_add (a, b), b);
	VF_ASSERT (r.tv_sec == a.tv_sec && r.tv_nsec == a.tv_nsec, "(a+b)-b == a");
	r = nsync_time_add (nsync_time_sub (a, b), b);
	VF_ASSERT (r.tv_sec == a.tv_sec && r.tv_nsec == a.tv_nsec, "(a-b)+b == a");
	VF_WITNESS ();
}

void h_cmp (void) {
	IN_TIME (a, a_s, a_n);
	IN_TIME (b, b_s, b_n);
	IN_TIME (c, c_s, c_n);
	int ab = nsync_time_cmp (a, b);
	int ba = nsync_time_cmp (b, a);
	int bc = nsync_time_cmp (b, c);
	int ac = nsync_time_cmp (a, c);
	int gt = (a_s > b_s) || (a_s == b_s && a_n > b_n);
	int lt = (a_s < b_s) || (a_s == b_s && a_n < b_n);
	VF_ASSERT ((ab > 0) == gt && (ab < 0) == lt && (ab == 0) == (!gt && !lt), "cmp is the integer order on sec*1e9+nsec");
	VF_ASSERT ((ab > 0) == (ba < 0) && (ab == 0) == (ba == 0), "cmp antisymmetric");
	VF_ASSERT (!(ab <= 0 && bc <= 0) || ac <= 0, "cmp transitive");
	VF_ASSERT (!(ab == 0) || (a.tv_sec == b.tv_sec && a.tv_nsec == b.tv_nsec), "cmp == 0 only for equal values");
	if (a_s >= -SEC_BOUND && a_s <= SEC_BOUND && b_s >= -SEC_BOUND && b_s <= SEC_BOUND) {
		nsync_time df = nsync_time_sub (a, b);
		int sg = nsync_time_cmp (df, nsync_time_zero);
		VF_ASSERT ((sg > 0) == (ab > 0) && (sg < 0) == (ab < 0), "cmp(a,b) has the sign of a-b");
	}
	VF_WITNESS ();
}

void h_bounds (void) {
	IN_TIME (t, t_s, t_n);
	VF_ASSUME (t_s >= 0);
	VF_ASSERT (nsync_time_cmp (nsync_time_zero, t) <= 0, "zero <= t for every non-negative t");
	VF_ASSERT (nsync_time_cmp (t, nsync_time_no_deadline) <= 0, "t <= no_deadline for every t");
	VF_ASSERT (normalized (nsync_time_no_deadline) && normalized (nsync_time_zero), "constants normalized");
	VF_ASSERT (nsync_time_zero.tv_sec == 0 && nsync_time_zero.tv_nsec == 0, "zero is zero");
	VF_WITNESS ();
}

void h_ms (void) {
	VF_IN (uint32_t, ms);
	nsync_time r = nsync_time_ms (ms);
	VF_ASSERT (normalized (r), "ms result normalized");
	VF_ASSERT ((uint64_t) r.tv_sec * 1000000000ull + (uint64_t) r.tv_nsec == (uint64_t) ms * 1000000ull, "nsync_time_ms yields ms milliseconds");
	VF_WITNESS ();
}

void h_us (void) {
	VF_IN (uint32_t, us);
	nsync_time r = nsync_time_us (us);
	VF_ASSERT (normalized (r), "us result normalized");
	VF_ASSERT ((uint64_t) r.tv_sec * 1000000000ull + (uint64_t) r.tv_nsec == (uint64_t) us * 1000ull, "nsync_time_us yields us microseconds");
	VF_WITNESS ();
}

void h_s_ns (void) {
	VF_IN (int64_t, s);
	VF_IN (uint32_t, ns);
	nsync_time r = nsync_time_s_ns (s, ns);
	VF_ASSERT (NSYNC_TIME_SEC (r) == s && (uint64_t) NSYNC_TIME_NSEC (r) == ns, "s_ns stores its components");
	VF_WITNESS ();
}

#ifdef VF_REPLAY
int main (void) { HFUNC (); return 0; }
#endif
