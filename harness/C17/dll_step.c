/* C17: the list operations of internal/dll.c implement a sequence.
 *
 * Inductive step: the pre-state is ANY pair of disjoint lists A, B over NE elements
 * (given by a symbolic permutation and two symbolic lengths; the other elements are
 * self-linked singletons), links are built from that abstract state, ONE operation
 * with symbolic arguments meeting the documented preconditions is applied by the real
 * code, and the traversals (first/next forwards, last/prev backwards, is_empty) must
 * yield exactly the updated abstract sequences.  Since the post-state is again of the
 * shape (A', B', singletons) - asserted - one step from an arbitrary state covers
 * operation sequences of any length over NE elements.
 *
 * -DFROM_EMPTY: bounded cross-check, STEPS operations starting from two empty lists,
 * the abstract sequences being maintained by the harness (differential).
 */
#include "vf_harness.h"
#include "nsync_cpp.h"
#include "platform.h"
#include "compiler.h"
#include "cputype.h"
#include "dll.h"

#ifndef NE
#define NE 5
#endif
#ifndef STEPS
#define STEPS 1
#endif

static nsync_dll_element_ E[NE];
static int container_tag[NE];

/* abstract state */
static int A[2 * NE], la, B[2 * NE], lb;
static nsync_dll_list_ hA, hB;

static int idx_of (nsync_dll_element_ *e) {
	int i;
	for (i = 0; i < NE; i++) { if (e == &E[i]) { return i; } }
	return -1;
}

/* Build circular links for sequence s[0..n). Returns head (last element) or NULL. */
static nsync_dll_list_ build (const int *s, int n) {
	int i;
	if (n == 0) { return NULL; }
	for (i = 0; i < n; i++) {
		E[s[i]].next = &E[s[i + 1 == n ? 0 : i + 1]];
		E[s[i]].prev = &E[s[i == 0 ? n - 1 : i - 1]];
	}
	return &E[s[n - 1]];
}

/* Traversals of the real API must give exactly s[0..n). */
static void check_list (nsync_dll_list_ h, const int *s, int n) {
	nsync_dll_element_ *p;
	int i;
	VF_ASSERT ((nsync_dll_is_empty_ (h) != 0) == (n == 0), "is_empty reported exactly for the empty sequence");
	/* forwards */
	p = nsync_dll_first_ (h);
	for (i = 0; i < n; i++) {
		VF_ASSERT (p == &E[s[i]], "forward traversal yields the abstract sequence");
		p = nsync_dll_next_ (h, p);
	}
	VF_ASSERT (p == NULL, "forward traversal ends after the last element");
	/* backwards */
	p = nsync_dll_last_ (h);
	for (i = n - 1; i >= 0; i--) {
		VF_ASSERT (p == &E[s[i]], "backward traversal yields the abstract sequence");
		p = nsync_dll_prev_ (h, p);
	}
	VF_ASSERT (p == NULL, "backward traversal ends before the first element");
}

static int in_seq (const int *s, int n, int x) {
	int i;
	for (i = 0; i < n; i++) { if (s[i] == x) { return 1; } }
	return 0;
}

static void check_all (void) {
	int i;
	check_list (hA, A, la);
	check_list (hB, B, lb);
	for (i = 0; i < NE; i++) {
		VF_ASSERT (E[i].container == (void *) &container_tag[i], "container pointer untouched");
		if (!in_seq (A, la, i) && !in_seq (B, lb, i)) {
			VF_ASSERT (E[i].next == &E[i] && E[i].prev == &E[i], "element outside every list is a self-linked singleton");
		}
	}
}

/* abstract helpers */
static void seq_remove (int *s, int *n, int pos) {
	int i;
	for (i = pos; i + 1 < *n; i++) { s[i] = s[i + 1]; }
	(*n)--;
}
static int rot (int j, int n) { if (j >= n) { j -= n; } return j; }
static void seq_copy (int *d, const int *s, int n) { int i; for (i = 0; i < n; i++) { d[i] = s[i]; } }

/* one operation on (L, hL) with the other list (O, hO) */
static void step (int *L, int *pl, nsync_dll_list_ *hL, int *O, int *po, nsync_dll_list_ *hO, int stepno) {
	int tmp[2 * NE];
	int i, n;
	
#ifdef OP
	uint8_t op = OP;
#else
	VF_IN (uint8_t, op);
#endif
	VF_IN (uint8_t, x);     /* element / position argument */
	VF_IN (uint8_t, y);     /* second position argument */
	VF_ASSUME (op < 9);
	(void) stepno;
	switch (op) {
	case 0: /* remove (L, e) with e in L */
		VF_ASSUME (x < *pl);
		{
			nsync_dll_element_ *e = &E[L[x]];
			*hL = nsync_dll_remove_ (*hL, e);
			seq_remove (L, pl, x);
			VF_ASSERT (e->next == e && e->prev == e, "removed element is a self-linked singleton");
		}
		break;
	case 1: /* make_first (L, singleton) */
	case 2: /* make_last (L, singleton) */
		VF_ASSUME (x < NE && !in_seq (L, *pl, x) && !in_seq (O, *po, x));
		if (op == 1) {
			*hL = nsync_dll_make_first_in_list_ (*hL, &E[x]);
			for (i = *pl; i > 0; i--) { L[i] = L[i - 1]; }
			L[0] = x;
		} else {
			*hL = nsync_dll_make_last_in_list_ (*hL, &E[x]);
			L[*pl] = x;
		}
		(*pl)++;
		break;
	case 3: /* make_first / make_last with NULL: unchanged */
		if (x & 1) { *hL = nsync_dll_make_first_in_list_ (*hL, NULL); }
		else { *hL = nsync_dll_make_last_in_list_ (*hL, NULL); }
		break;
	case 4: /* make_first (L, e) with e = O[x]: L' = O rotated to start at e, then L; O's head is consumed */
		VF_ASSUME (x < *po);
		*hL = nsync_dll_make_first_in_list_ (*hL, &E[O[x]]);
		n = 0;
		for (i = 0; i < *po; i++) { tmp[n++] = O[rot (x + i, *po)]; }
		for (i = 0; i < *pl; i++) { tmp[n++] = L[i]; }
		seq_copy (L, tmp, n); *pl = n; *po = 0; *hO = NULL;
		break;
	case 5: /* make_last (L, e) with e = O[x]: L' = L, then O rotated to end at e */
		VF_ASSUME (x < *po);
		*hL = nsync_dll_make_last_in_list_ (*hL, &E[O[x]]);
		n = 0;
		for (i = 0; i < *pl; i++) { tmp[n++] = L[i]; }
		for (i = 0; i < *po; i++) { tmp[n++] = O[rot (x + 1 + i, *po)]; }
		seq_copy (L, tmp, n); *pl = n; *po = 0; *hO = NULL;
		break;
	case 6: /* splice_after (p = L[y], n = O[x]) */
		VF_ASSUME (x < *po && y < *pl);
		nsync_dll_splice_after_ (&E[L[y]], &E[O[x]]);
		n = 0;
		if (y == *pl - 1) {
			/* p is the element the head points at: the spliced run becomes the front */
			for (i = 0; i < *po; i++) { tmp[n++] = O[rot (x + i, *po)]; }
			for (i = 0; i < *pl; i++) { tmp[n++] = L[i]; }
		} else {
			for (i = 0; i <= y; i++) { tmp[n++] = L[i]; }
			for (i = 0; i < *po; i++) { tmp[n++] = O[rot (x + i, *po)]; }
			for (i = y + 1; i < *pl; i++) { tmp[n++] = L[i]; }
		}
		seq_copy (L, tmp, n); *pl = n; *po = 0; *hO = NULL;
		break;
	case 7: /* splice_after (p = L[y], n = singleton x) */
		VF_ASSUME (y < *pl && x < NE && !in_seq (L, *pl, x) && !in_seq (O, *po, x));
		nsync_dll_splice_after_ (&E[L[y]], &E[x]);
		n = 0;
		if (y == *pl - 1) {
			tmp[n++] = x;
			for (i = 0; i < *pl; i++) { tmp[n++] = L[i]; }
		} else {
			for (i = 0; i <= y; i++) { tmp[n++] = L[i]; }
			tmp[n++] = x;
			for (i = y + 1; i < *pl; i++) { tmp[n++] = L[i]; }
		}
		seq_copy (L, tmp, n); *pl = n;
		break;
	case 8: /* re-insert: remove e = L[x] and insert it again at the other end of the same list */
		VF_ASSUME (x < *pl);
		{
			int v = L[x];
			nsync_dll_element_ *e = &E[v];
			*hL = nsync_dll_remove_ (*hL, e);
			seq_remove (L, pl, x);
			*hL = nsync_dll_make_last_in_list_ (*hL, e);
			L[*pl] = v; (*pl)++;
		}
		break;
	}
}

void harness (void) {
	int i, j, s;
	for (i = 0; i < NE; i++) {
		nsync_dll_init_ (&E[i], &container_tag[i]);
		VF_ASSERT (E[i].next == &E[i] && E[i].prev == &E[i] && E[i].container == (void *) &container_tag[i], "init makes a singleton");
	}
#ifdef FROM_EMPTY
	la = 0; lb = 0; hA = NULL; hB = NULL;
#else
	{
		VF_IN_ARR (uint8_t, perm, NE);
		VF_IN (uint8_t, len_a);
		VF_IN (uint8_t, len_b);
		for (i = 0; i < NE; i++) {
			VF_ASSUME (perm[i] < NE);
			for (j = 0; j < i; j++) { VF_ASSUME (perm[i] != perm[j]); }
		}
		VF_ASSUME (len_a <= NE && len_b <= NE && len_a + len_b <= NE);
		la = len_a; lb = len_b;
		for (i = 0; i < la; i++) { A[i] = perm[i]; }
		for (i = 0; i < lb; i++) { B[i] = perm[la + i]; }
		hA = build (A, la);
		hB = build (B, lb);
	}
#endif
	for (s = 0; s < STEPS; s++) {
		VF_IN (uint8_t, which);
		if (which & 1) { step (A, &la, &hA, B, &lb, &hB, s); }
		else { step (B, &lb, &hB, A, &la, &hA, s); }
#ifdef CHECK_EVERY_STEP
		check_all ();
#endif
	}
	check_all ();
	VF_WITNESS ();
}

#ifdef VF_REPLAY
int main (void) { harness (); return 0; }
#endif
