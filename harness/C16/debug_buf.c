/* C16 (buffer half): the debug-state functions stay inside buf[0..n-1], NUL-terminate for n>=1, end with "..." when
 * truncated and n>=4 - for every n, every mutex/cv word and every queue of 0..NW waiters with symbolic fields.
 * Oracle for "truncated": the same call into a buffer large enough for any output (BIG) gives the full text; the
 * n-byte result must be that text if it fits, else its prefix followed by "...".  Also: the call leaves the word and
 * the waiter queue unchanged (sequentially). */
#include "vf_harness.h"
#include "nsync_cpp.h"
#include "platform.h"
#include "compiler.h"
#include "cputype.h"
#include "nsync.h"
#include "dll.h"
#include "sem.h"
#include "wait_internal.h"
#include "common.h"
#include "atomic.h"

#ifndef NW
#define NW 1
#endif
#ifndef NMAX
#define NMAX 80
#endif
#ifndef BIG
#define BIG 1024
#endif

static waiter W[3];
static char big[BIG];

static void mk_waiter (int i, int ghost) {
	VF_IN (uint32_t, tag); VF_IN (uint32_t, nwtag); VF_IN (uint32_t, nwflags); VF_IN (uint32_t, waiting);
	VF_IN (int, flags); VF_IN (uint8_t, ltype); VF_IN (uint32_t, removes);
	VF_IN (uintptr_t, cf); VF_IN (uintptr_t, cv_); VF_IN (uintptr_t, ceq); VF_IN (uint8_t, same);
	waiter *w = &W[i];
	(void) ghost;
	memset (w, 0, sizeof (*w));
	w->tag = tag;            /* symbolic: the "bad WAITER_TAG" paths are reachable */
	w->nw.tag = nwtag;
	nsync_dll_init_ (&w->nw.q, &w->nw);
	w->nw.flags = nwflags;
	NSYNC_ATOMIC_UINT32_STORE_ (&w->nw.waiting, waiting);
	w->flags = flags;
	w->l_type = ltype == 0 ? nsync_writer_type_ : ltype == 1 ? nsync_reader_type_ : NULL;
	ATM_STORE (&w->remove_count, removes);
	w->cond.f = (int (*) (const void *)) cf;
	w->cond.v = (const void *) cv_;
	w->cond.eq = (int (*) (const void *, const void *)) ceq;
	nsync_dll_init_ (&w->same_condition, w);
	if (same != 0 && i > 0) {       /* linked to the previous waiter's same_condition ring */
		nsync_dll_splice_after_ (&W[i - 1].same_condition, &w->same_condition);
	}
}

static int slen (const char *s, int max) { int i; for (i = 0; i < max && s[i] != 0; i++) { } return i; }

void harness (void) {
	VF_IN (int, n);
	VF_IN (uint32_t, word);
	VF_IN (uint8_t, nq);
	VF_IN (uint8_t, variant);   /* 0 mu_debug_state, 1 mu_..._and_waiters, 2 cv_debug_state, 3 cv_..._and_waiters */
	nsync_mu mu; nsync_cv cv;
	nsync_dll_list_ q = NULL;
	char *buf, *r;
	int i, full, out;
	VF_ASSUME (n >= 0 && n <= NMAX);
	VF_ASSUME (nq <= NW);
	VF_ASSUME (variant < 4);
#ifdef VARIANT
	VF_ASSUME (variant == VARIANT);
#endif
	for (i = 0; i < NW; i++) { if (i < nq) { mk_waiter (i, 0); q = nsync_dll_make_last_in_list_ (q, &W[i].nw.q); } }
	nsync_mu_init (&mu); nsync_cv_init (&cv);
	/* sequential run: nobody else holds the queue spinlock, and the "waiting"/"non-empty" bit agrees with the queue */
	if (variant < 2) {
		VF_ASSUME ((word & MU_SPINLOCK) == 0);
		VF_ASSUME (((word & MU_WAITING) != 0) == (nq != 0));
		ATM_STORE (&mu.word, word); mu.waiters = q;
	} else {
		VF_ASSUME ((word & ~(CV_SPINLOCK | CV_NON_EMPTY)) == 0 && (word & CV_SPINLOCK) == 0);
		VF_ASSUME (((word & CV_NON_EMPTY) != 0) == (nq != 0));
		ATM_STORE (&cv.word, word); cv.waiters = q;
	}
	/* reference: full text */
	switch (variant) {
	case 0: r = nsync_mu_debug_state (&mu, big, BIG); break;
	case 1: r = nsync_mu_debug_state_and_waiters (&mu, big, BIG); break;
	case 2: r = nsync_cv_debug_state (&cv, big, BIG); break;
	default: r = nsync_cv_debug_state_and_waiters (&cv, big, BIG); break;
	}
	VF_ASSERT (r == big, "returns the caller's buffer");
	full = slen (big, BIG);
	VF_ASSERT (full < BIG - 4, "reference buffer is large enough (not truncated)");
	/* the call under test: exactly n bytes, so any write outside buf[0..n-1] is a bounds violation */
	buf = (char *) malloc (n > 0 ? n : 1);
	VF_ASSUME (buf != NULL);
	for (i = 0; i < n; i++) { buf[i] = 0x55; }
	if (n == 0) { buf[0] = 0x55; }
	switch (variant) {
	case 0: r = nsync_mu_debug_state (&mu, buf, n); break;
	case 1: r = nsync_mu_debug_state_and_waiters (&mu, buf, n); break;
	case 2: r = nsync_cv_debug_state (&cv, buf, n); break;
	default: r = nsync_cv_debug_state_and_waiters (&cv, buf, n); break;
	}
	VF_ASSERT (r == buf, "returns the caller's buffer");
	if (n == 0) { VF_ASSERT (buf[0] == 0x55, "n == 0: nothing written"); }
	if (n >= 1) {
		out = slen (buf, n);
		VF_ASSERT (out < n, "result is NUL-terminated inside buf[0..n-1]");
		if (full + 1 <= n) {
			VF_ASSERT (out == full, "untruncated result has the full length");
			for (i = 0; i < full; i++) { VF_ASSERT (buf[i] == big[i], "untruncated result equals the full text"); }
		} else {
			VF_ASSERT (out == n - 1, "truncated result fills the buffer");
			if (n >= 4) {
				VF_ASSERT (buf[n - 4] == '.' && buf[n - 3] == '.' && buf[n - 2] == '.', "truncated result ends with ...");
				for (i = 0; i < n - 4; i++) { VF_ASSERT (buf[i] == big[i], "truncated result is a prefix of the full text"); }
			}
		}
	}
	/* only observes (sequentially): word and queue unchanged */
	if (variant < 2) { VF_ASSERT (ATM_LOAD (&mu.word) == word && mu.waiters == q, "mutex word and queue unchanged"); }
	else { VF_ASSERT (ATM_LOAD (&cv.word) == word && cv.waiters == q, "cv word and queue unchanged"); }
	VF_WITNESS ();
}

#ifdef VF_REPLAY
int main (void) { harness (); return 0; }
#endif
