/* C16 (buffer half, core mechanism): every byte the debug-state functions produce goes through emit_c() of
 * internal/debug.c (emit_print, emit_word, emit_waiters and the final NUL all call it; nothing else stores through
 * b->start - by reading).  This harness includes the real debug.c and drives emit_init / emit_c directly:
 * for EVERY buffer size n in 0..NMAX and EVERY sequence of m <= MMAX emitted characters followed by the final NUL,
 * writes stay inside buf[0..n-1] (the buffer is malloc(n) exactly: CBMC's bounds checks are the canary), the result is
 * NUL-terminated when n >= 1, it is the full text when it fits, and it is the prefix followed by "..." when it was
 * truncated and n >= 4.  The varargs formatter above emit_c is outside this check (CBMC does not get through it). */
#include "vf_harness.h"
#include "debug.c"

#ifndef NMAX
#define NMAX 80
#endif
#ifndef MMAX
#define MMAX 90
#endif

void harness (void) {
	VF_IN (int, n);
	VF_IN (int, m);
	VF_IN_ARR (uint8_t, text, MMAX);
	struct emit_buf b;
	char *buf;
	int i;
	VF_ASSUME (n >= 0 && n <= NMAX);
#ifdef NFIX
	n = NFIX;
#endif
	VF_ASSUME (m >= 0 && m <= MMAX);
	for (i = 0; i < MMAX; i++) { VF_ASSUME (text[i] != 0); }
	buf = (char *) malloc (n > 0 ? n : 1);
	VF_ASSUME (buf != NULL);
	if (n == 0) { buf[0] = 0x55; }
	emit_init (&b, buf, n);
	for (i = 0; i < m; i++) { emit_c (&b, text[i]); }
	emit_c (&b, 0);
	if (n == 0) { VF_ASSERT (buf[0] == 0x55, "n == 0: nothing is written"); }
	if (n >= 1) {
		if (m + 1 <= n) {
			for (i = 0; i < m; i++) { VF_ASSERT ((uint8_t) buf[i] == text[i], "text that fits is stored unchanged"); }
			VF_ASSERT (buf[m] == 0, "text that fits is NUL-terminated right after it");
		} else {
			VF_ASSERT (buf[n - 1] == 0, "truncated text is NUL-terminated in the last byte");
			if (n >= 4) {
				VF_ASSERT (buf[n - 4] == '.' && buf[n - 3] == '.' && buf[n - 2] == '.', "truncated text ends with ...");
				for (i = 0; i < n - 4; i++) { VF_ASSERT ((uint8_t) buf[i] == text[i], "truncated text keeps the prefix"); }
			}
		}
	}
	VF_WITNESS ();
}
#ifdef VF_REPLAY
int main (void) { harness (); return 0; }
#endif
