"""E1: sequential unit harness on real translation units, decided by CBMC; native replay of counterexamples."""
import os, re, json, sys
from . import vf

HC = os.path.join(vf.VERIF, 'harness', 'common')


def make_job(ctx, name, harness, units, function, unwind=None, defines=(), front_inc=(), flags=(), timeout=600, mem_gb=16,
             expect='pass', unwindset=(), incs=vf.INC_C, extra_src=(), optional=False, solver=(), checks=vf.CBMC_CHECKS, desc='', cvc5_int=False):
    """harness: path under /verif/harness; units: repo-relative C files compiled with the harness."""
    hpath = harness if os.path.isabs(harness) else os.path.join(vf.VERIF, 'harness', harness)
    defs = list(defines) + (['WITNESS'] if expect == 'witness' else [])
    meta = {'harness': os.path.relpath(hpath, vf.VERIF), 'units': list(units), 'function': function, 'unwind': unwind,
            'defines': defs, 'desc': desc, 'optional': optional, 'front_inc': [os.path.relpath(p, vf.VERIF) for p in front_inc],
            'extra_src': [os.path.relpath(p, vf.VERIF) for p in extra_src], 'incs': list(incs)}

    def fn():
        gb = ctx.path('gb', re.sub(r'[^A-Za-z0-9_.-]', '_', name) + '.gb')
        srcs = [hpath] + [vf.repo_path(u) for u in units] + list(extra_src)
        vf.goto_cc(gb, srcs, defines=defs, front_inc=[HC] + list(front_inc), incs=incs)
        return vf.cbmc(gb, function, unwind=unwind, flags=flags, timeout=timeout, mem_gb=mem_gb, unwindset=unwindset,
                       solver=solver, checks=checks, cvc5_int=cvc5_int)
    return vf.Job(name, fn, expect=expect, meta=meta)


def write_inputs(path, inputs):
    """inputs: dict name->value, or ordered list of (name, value) with repeats (k-th execution of a VF_IN site)."""
    items = inputs.items() if isinstance(inputs, dict) else inputs
    with open(path, 'w') as f:
        for k, v in items:
            if isinstance(v, int):
                k2 = re.sub(r'\[(\d+)[a-zA-Z]*\]', r'[\1]', k)
                f.write('%s %d\n' % (k2, v))


def native_replay(ctx, meta, inputs, tag, sanitize=True, timeout=60):
    """Compile the same harness + the same repo units natively with -DVF_REPLAY and run it on the solver's inputs.
    Returns (outcome, detail): outcome in assert|crash|sanitizer|assume|clean|timeout|builderror"""
    exe = ctx.path('replay', tag + '.exe')
    inp = ctx.path('replay', tag + '.in')
    write_inputs(inp, inputs)
    hpath = os.path.join(vf.VERIF, meta['harness'])
    srcs = [hpath, os.path.join(HC, 'vf_replay.c')] + [vf.repo_path(u) for u in meta['units']] + [os.path.join(vf.VERIF, p) for p in meta.get('extra_src', [])]
    defs = [d for d in meta['defines'] if d != 'WITNESS'] + ['VF_REPLAY']
    extra = ['-w', '-lpthread']
    if sanitize:
        extra += ['-fsanitize=address,undefined', '-fno-sanitize-recover=all']
    try:
        vf.cc_native(exe, srcs, defines=defs, front_inc=[HC] + [os.path.join(vf.VERIF, p) for p in meta.get('front_inc', [])],
                     incs=meta.get('incs', vf.INC_C), extra=extra)
    except RuntimeError as ex:
        return 'builderror', str(ex)[-1500:]
    env = dict(os.environ, VF_REPLAY_FILE=inp, ASAN_OPTIONS='detect_leaks=0:abort_on_error=0', UBSAN_OPTIONS='print_stacktrace=0')
    rc, out, err, w, _ = vf.run([exe], timeout=timeout, env=env)
    tail = (out + err)[-1200:]
    if rc is None:
        return 'timeout', tail
    if rc == 99:
        return 'assert', tail
    if rc == 77:
        return 'assume', tail
    if rc == 0:
        return 'clean', tail
    if 'Sanitizer' in err or 'runtime error' in err:
        return 'sanitizer', tail
    return 'crash', 'rc=%s %s' % (rc, tail)


def confirm(ctx, job, failure, key_extra=''):
    """Default confirmation: native re-execution must end in assert / crash / sanitizer report."""
    tag = re.sub(r'[^A-Za-z0-9_.-]', '_', job.name + '.' + failure['property'])
    seq = [(k, v) for k, v in failure.get('assignments', []) if isinstance(v, int)] or failure['inputs']
    outcome, detail = native_replay(ctx, job.meta, seq, tag)
    ok = outcome in ('assert', 'crash', 'sanitizer', 'timeout')
    loc = failure.get('location') or {}
    key = '%s|%s|%s|%s:%s|%s' % (job.name, failure['property'], failure['description'], os.path.basename(loc.get('file', '?')),
                                 loc.get('function', '?'), key_extra)
    rp = vf.save_replay(ctx.prop, tag, {
        'property': ctx.prop, 'job': job.name, 'cbmc_property': failure['property'], 'description': failure['description'],
        'location': loc, 'inputs': [[re.sub(r'\[(\d+)[a-zA-Z]*\]', r'[\1]', k), v] for k, v in seq] if isinstance(seq, list) else seq,
        'meta': job.meta, 'native_outcome': outcome, 'native_output_tail': detail,
        'how_to_replay': 'python3 tools/replay.py <this file>  (rebuilds the harness and the /repo units natively and runs them on these inputs)'})
    return {'confirmed': ok, 'key': key, 'replay': rp,
            'detail': '%s: %s [%s] native replay: %s' % (job.name, failure['description'], failure['property'], outcome)
                      + ('' if ok else ' -- ' + detail[-300:])}
