"""E2: thread-modular (rely/guarantee) step checks on the real translation units, decided by CBMC."""
import os, re
from . import vf, e1

E2PLAT = os.path.join(vf.VERIF, 'plat', 'e2')
HC = e1.HC
UNITS = ['internal/mu.c', 'internal/common.c', 'internal/dll.c', 'internal/mu_wait.c', 'internal/cv.c', 'internal/sem_wait.c', 'internal/debug.c',
         'internal/note.c', 'internal/wait.c', 'internal/time_internal.c', 'platform/posix/src/time_rep.c']


def make_job(ctx, name, harness, function, units=UNITS, unwind=6, defines=(), replace_bodies=('nsync_spin_delay_',), timeout=900, mem_gb=16,
             expect='pass', unwindset=(), optional=False, desc='', flags=()):
    hpath = os.path.join(vf.VERIF, 'harness', harness)
    defs = list(defines) + (['WITNESS'] if expect == 'witness' else [])
    meta = {'harness': 'harness/' + harness, 'units': list(units), 'function': function, 'unwind': unwind, 'defines': defs, 'desc': desc, 'optional': optional,
            'front_inc': ['plat/e2'], 'extra_src': [], 'incs': vf.INC_C, 'replaced_bodies': list(replace_bodies)}

    def fn():
        tag = re.sub(r'[^A-Za-z0-9_.-]', '_', name)
        lib1 = ctx.path('gb', tag + '.units.gb')
        vf.goto_cc(lib1, [vf.repo_path(u) for u in units], defines=defs, front_inc=[E2PLAT, HC], extra=['-c'] if False else [])
        lib2 = ctx.path('gb', tag + '.units2.gb')
        cmd = ['goto-instrument'] + sum([['--remove-function-body', b] for b in replace_bodies], []) + [lib1, lib2]
        rc, o, e, w, _ = vf.run(cmd, timeout=300)
        if rc != 0:
            raise RuntimeError('goto-instrument failed: %s %s' % (o[-500:], e[-500:]))
        gb = ctx.path('gb', tag + '.gb')
        vf.goto_cc(gb, [lib2, hpath], defines=defs, front_inc=[E2PLAT, HC])
        return vf.cbmc(gb, function, unwind=unwind, flags=['--no-malloc-may-fail'] + list(flags), timeout=timeout, mem_gb=mem_gb, unwindset=unwindset,
                       checks=['--pointer-check', '--bounds-check'])
    return vf.Job(name, fn, expect=expect, meta=meta)


def confirm(ctx, job, failure):
    """native replay of the same harness (sequential, the environment's choices come from the counterexample)"""
    meta = dict(job.meta)
    meta['defines'] = list(meta['defines']) + ['VF_E2_NATIVE']
    job2 = vf.Job(job.name, None, meta=meta)
    return e1.confirm(ctx, job2, failure)
