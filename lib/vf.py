"""Common machinery for the solver-based checks of google/nsync.

Everything is rebuilt from /repo's working tree on every run, in a scratch
directory outside /repo and /verif that is removed at exit.
"""
import atexit, concurrent.futures as cf, hashlib, json, os, re, shutil, subprocess, sys, tempfile, time

VERIF = os.path.dirname(os.path.dirname(os.path.abspath(__file__)))
REPO = os.environ.get('VERIF_REPO', '/repo')
NCPU = int(os.environ.get('VERIF_JOBS', str(os.cpu_count() or 4)))

# Include path of the CMake C build on Linux/gcc/x86_64 (CMakeLists.txt: set_c_target + include_directories)
INC_C = ['platform/linux', 'platform/gcc', 'platform/posix', 'platform/x86_64', 'public', 'internal']

CBMC_CHECKS = ['--pointer-check', '--bounds-check', '--pointer-overflow-check', '--signed-overflow-check',
               '--undefined-shift-check', '--div-by-zero-check']


def log(*a):
    print(*a, file=sys.stderr, flush=True)


class Ctx:
    def __init__(self, prop, tier, seed=0):
        self.prop, self.tier, self.seed = prop, tier, seed
        base = os.environ.get('VERIF_SCRATCH_BASE', '/var/tmp')
        self.scratch = tempfile.mkdtemp(prefix='nsync-verif.%s.' % prop, dir=base)
        self.keep = bool(os.environ.get('VERIF_KEEP'))
        atexit.register(self.cleanup)
        self.t0 = time.time()
        # temporary files of the tools (cbmc writes multi-GB CNF files for the external SAT solver) live in the scratch directory too
        global TOOL_TMP
        TOOL_TMP = os.path.join(self.scratch, 'tmp')
        os.makedirs(TOOL_TMP, exist_ok=True)
        install_signal_cleanup()

    def cleanup(self):
        if not self.keep:
            shutil.rmtree(self.scratch, ignore_errors=True)

    def path(self, *p):
        f = os.path.join(self.scratch, *p)
        os.makedirs(os.path.dirname(f), exist_ok=True)
        return f


def repo_path(*p):
    return os.path.join(REPO, *p)


def inc_flags(front=(), incs=INC_C):
    fl = []
    for d in front:
        fl += ['-I', d]
    for d in incs:
        fl += ['-I', repo_path(d)]
    return fl


TOOL_TMP = None
LIVE = set()          # process groups of running tools
STOPPING = False
_SIG_DONE = False


def kill_live():
    import signal
    for pg in list(LIVE):
        try:
            os.killpg(pg, signal.SIGKILL)
        except Exception:
            pass


def install_signal_cleanup():
    """A check stopped from outside (SIGTERM / SIGINT, e.g. a time limit) must not leave cbmc / kissat running or scratch files behind:
    the tools run in their own process groups, so they are killed explicitly; atexit handlers (scratch removal) then run through sys.exit."""
    global _SIG_DONE
    if _SIG_DONE:
        return
    _SIG_DONE = True
    import signal, threading
    if threading.current_thread() is not threading.main_thread():
        return

    def handler(signum, frame):
        global STOPPING
        STOPPING = True           # queued jobs must not start new tools
        kill_live()
        sys.stderr.write('run_check: stopped by signal %d\n' % signum)
        sys.exit(2)
    for sg in (signal.SIGTERM, signal.SIGINT, signal.SIGHUP):
        try:
            signal.signal(sg, handler)
        except Exception:
            pass
    atexit.register(kill_live)


def run(cmd, timeout=None, cwd=None, env=None, mem_gb=None, stdin=None):
    """Run cmd; returns (rc, stdout, stderr, wall_s, maxrss_kb). rc None on timeout."""
    if STOPPING:
        raise RuntimeError('check is being stopped')
    t0 = time.time()
    pre = []
    if mem_gb:
        pre = ['/bin/sh', '-c', 'ulimit -v %d; exec "$@"' % int(mem_gb * 1024 * 1024), 'sh']
    tf = tempfile.NamedTemporaryFile(prefix='rss', delete=False, dir=TOOL_TMP)
    tf.close()
    if TOOL_TMP:
        env = dict(env if env is not None else os.environ)
        env['TMPDIR'] = TOOL_TMP
    full = ['/usr/bin/time', '-f', '%M', '-o', tf.name] + pre + list(cmd)
    import signal
    pr = subprocess.Popen(full, stdout=subprocess.PIPE, stderr=subprocess.PIPE, stdin=subprocess.PIPE if stdin is not None else None, cwd=cwd, env=env,
                          text=True, errors='replace', start_new_session=True)
    LIVE.add(pr.pid)
    try:
        out, err = pr.communicate(input=stdin, timeout=timeout)
        rc = pr.returncode
    except subprocess.TimeoutExpired:
        try:
            os.killpg(pr.pid, signal.SIGKILL)     # the whole group: cbmc and an external SAT solver it started
        except Exception:
            pass
        try:
            out, err = pr.communicate(timeout=10)
        except Exception:
            out, err = '', ''
        rc = None
    rss = 0
    try:
        txt = open(tf.name).read().split()
        rss = int(txt[-1]) if txt else 0
    except Exception:
        pass
    LIVE.discard(pr.pid)
    try:
        os.unlink(tf.name)
    except Exception:
        pass
    return rc, out, err, time.time() - t0, rss


def goto_cc(out, sources, defines=(), front_inc=(), incs=INC_C, extra=()):
    cmd = ['goto-cc', '-o', out] + inc_flags(front_inc, incs) + ['-D%s' % d for d in defines] + list(extra) + list(sources)
    rc, o, e, w, _ = run(cmd, timeout=600)
    if rc != 0:
        raise RuntimeError('goto-cc failed: %s\n%s\n%s' % (' '.join(cmd), o, e))
    return out


def cc_native(out, sources, defines=(), front_inc=(), incs=INC_C, extra=(), cc='gcc'):
    cmd = [cc, '-g', '-O0', '-o', out] + inc_flags(front_inc, incs) + ['-D%s' % d for d in defines] + list(sources) + list(extra)
    rc, o, e, w, _ = run(cmd, timeout=600)
    if rc != 0:
        raise RuntimeError('native cc failed: %s\n%s\n%s' % (' '.join(cmd), o, e))
    return out


class CbmcResult:
    def __init__(self):
        self.status = 'error'      # pass | fail | timeout | oom | error
        self.failed = []           # [{property, description, inputs{}, trace_tail}]
        self.nprops = 0
        self.stats = {}
        self.wall = 0.0
        self.rss_kb = 0
        self.messages = []
        self.cmd = ''


def _num(s):
    try:
        return int(s)
    except Exception:
        return None


def parse_cbmc_value(v):
    """value object from json trace -> python (int / dict / list / None)."""
    if v is None:
        return None
    if 'members' in v:
        return {m['name']: parse_cbmc_value(m['value']) for m in v['members']}
    if 'elements' in v:
        return [parse_cbmc_value(e['value']) for e in v['elements']]
    if 'binary' in v and v.get('name') in ('integer', 'pointer') and v.get('width'):
        b = v['binary']
        x = int(b, 2)
        t = v.get('type', '')
        if v.get('name') == 'integer' and not t.startswith('unsigned') and t not in ('_Bool', 'bool', '__CPROVER_bool') and b[0] == '1' and 'unsigned' not in t:
            x -= 1 << len(b)
        return x
    d = v.get('data')
    if d is None:
        return None
    if isinstance(d, bool):
        return int(d)
    d = str(d)
    if d in ('TRUE', 'true'):
        return 1
    if d in ('FALSE', 'false'):
        return 0
    m = re.match(r'^(-?\d+)[uUlL]*$', d)
    if m:
        return int(m.group(1))
    return d


def cbmc(gb, function, unwind=None, flags=(), timeout=600, mem_gb=16, unwindset=(), trace=True, checks=CBMC_CHECKS,
         drop_unused=True, solver=(), cvc5_int=False):
    cmd = ['cbmc', gb] + (['--function', function] if function else []) + ['--json-ui', '--verbosity', '8', '--unwinding-assertions'] + list(checks)
    if drop_unused:
        cmd.append('--drop-unused-functions')
    if unwind is not None:
        cmd += ['--unwind', str(unwind)]
    if unwindset:
        cmd += ['--unwindset', ','.join(unwindset)]
    if trace:
        cmd.append('--trace')
    cmd += list(solver) + list(flags)
    env = None
    if cvc5_int:
        # multiply/divide-by-constant kernels: SMT back end cvc5 with the bit-vector -> integer translation that keeps
        # the mod-2^k semantics (tools/shim/cvc5 execs /usr/bin/cvc5 --solve-bv-as-int=sum)
        cmd += ['--cvc5', '--slice-formula']
        env = dict(os.environ, PATH=os.path.join(VERIF, 'tools', 'shim') + ':' + os.environ.get('PATH', ''))
    r = CbmcResult()
    r.cmd = ' '.join(cmd) + (' [cvc5 --solve-bv-as-int=sum]' if cvc5_int else '')
    rc, out, err, wall, rss = run(cmd, timeout=timeout, mem_gb=mem_gb, env=env)
    r.wall, r.rss_kb = wall, rss
    if rc is None:
        r.status = 'timeout'
        return r
    try:
        doc = json.loads(out)
    except Exception:
        # cbmc killed (memory) or crashed: output is truncated json
        r.status = 'oom' if ('std::bad_alloc' in out + err or rc in (-9, 137, 134, -6)) else 'error'
        r.messages = [(out[-2000:] + err[-2000:])]
        return r
    status = None
    for e in doc:
        if 'messageText' in e:
            t = e['messageText']
            r.messages.append(t)
            m = re.search(r'size of program expression: (\d+) steps', t)
            if m:
                r.stats['ssa_steps'] = int(m.group(1))
            m = re.search(r'(\d+) variables, (\d+) clauses', t)
            if m:
                r.stats['sat_vars'] = int(m.group(1)); r.stats['sat_clauses'] = int(m.group(2))
            m = re.search(r'Runtime Solver: ([\d.e+-]+)s', t)
            if m:
                r.stats['solver_s'] = r.stats.get('solver_s', 0) + float(m.group(1))
            m = re.search(r'Runtime Symex: ([\d.e+-]+)s', t)
            if m:
                r.stats['symex_s'] = float(m.group(1))
            m = re.search(r'Generated (\d+) VCC\(s\), (\d+) remaining', t)
            if m:
                r.stats['vccs'] = int(m.group(1)); r.stats['vccs_remaining'] = int(m.group(2))
        if 'result' in e:
            for p in e['result']:
                r.nprops += 1
                if p['status'] == 'FAILURE':
                    inputs = {}
                    order = []
                    tail = []
                    for s in p.get('trace', []):
                        if s.get('stepType') == 'assignment' and not s.get('hidden'):
                            lhs = s.get('lhs')
                            val = parse_cbmc_value(s.get('value'))
                            if lhs is not None:
                                if lhs not in inputs:
                                    inputs[lhs] = val
                                order.append((lhs, val))
                    r.failed.append({'property': p['property'], 'description': p.get('description', ''),
                                     'inputs': inputs, 'assignments': order,
                                     'location': (p.get('sourceLocation') or {})})
        if 'cProverStatus' in e:
            status = e['cProverStatus']
    if status == 'success':
        r.status = 'pass'
    elif status == 'failure':
        r.status = 'fail'
    else:
        r.status = 'error'
    return r


class Job:
    """One solver query (or a few) with its expectation.

    expect: 'pass'    - every property must hold
            'witness' - the witness assertion(s) (description contains 'WITNESS') must FAIL and nothing else
    """
    def __init__(self, name, fn, expect='pass', meta=None):
        self.name, self.fn, self.expect, self.meta = name, fn, expect, meta or {}
        self.result = None
        self.error = None


def run_jobs(jobs, workers=None):
    workers = workers or NCPU
    def go(j):
        try:
            j.result = j.fn()
        except Exception as ex:  # build failure etc.
            j.error = '%s: %s' % (type(ex).__name__, ex)
        return j
    with cf.ThreadPoolExecutor(max_workers=workers) as ex:
        for j in ex.map(go, jobs):
            r = j.result
            if j.error:
                log('[%s] ERROR %s' % (j.name, j.error[:2000]))
            elif isinstance(r, CbmcResult):
                log('[%s] %s props=%d failed=%d wall=%.1fs rss=%dMB %s' % (j.name, r.status, r.nprops, len(r.failed), r.wall,
                                                                        r.rss_kb // 1024, r.stats))
    return jobs


def load_known_findings():
    p = os.path.join(VERIF, 'known_findings.json')
    if not os.path.exists(p):
        return {'findings': [], 'fixed': []}
    return json.load(open(p))


def write_evidence(ctx, coverage, assumptions, violations, level='other'):
    ev = {
        'property_id': ctx.prop,
        'tier': ctx.tier,
        'seed': ctx.seed,
        'level': level,
        'coverage': coverage,
        'assumptions': assumptions,
        'wall_s': round(time.time() - ctx.t0, 2),
        'violations': violations,
    }
    d = os.environ.get('VERIF_EVIDENCE_DIR') or os.path.join(VERIF, 'evidence')     # tools/mutant.sh redirects it: a run against a modified copy must not overwrite the evidence
    os.makedirs(d, exist_ok=True)
    with open(os.path.join(d, '%s.json' % ctx.prop), 'w') as f:
        json.dump(ev, f, indent=1, sort_keys=True)
        f.write('\n')
    return ev


def repo_rev():
    try:
        h = subprocess.run(['git', '-C', REPO, 'rev-parse', 'HEAD'], stdout=subprocess.PIPE, stderr=subprocess.DEVNULL, text=True).stdout.strip()
        d = subprocess.run(['git', '-C', REPO, 'status', '--porcelain', '--untracked-files=no'], stdout=subprocess.PIPE, stderr=subprocess.DEVNULL, text=True).stdout
        return h + ('+dirty' if d.strip() else '')
    except Exception:
        return 'unknown'


def file_sha(paths):
    h = hashlib.sha256()
    for p in paths:
        try:
            h.update(open(p, 'rb').read())
        except Exception:
            h.update(b'?')
    return h.hexdigest()[:16]


def save_replay(prop, name, obj):
    d = os.path.join(VERIF, 'replays')
    os.makedirs(d, exist_ok=True)
    p = os.path.join(d, '%s-%s.json' % (prop, re.sub(r'[^A-Za-z0-9_.-]', '_', name)))
    with open(p, 'w') as f:
        json.dump(obj, f, indent=1, sort_keys=True, default=str)
    return p


REAL_SRC = ['internal/common.c', 'internal/counter.c', 'internal/cv.c', 'internal/debug.c', 'internal/dll.c', 'internal/mu.c', 'internal/mu_wait.c',
            'internal/note.c', 'internal/once.c', 'internal/sem_wait.c', 'internal/time_internal.c', 'internal/wait.c',
            'platform/posix/src/nsync_panic.c', 'platform/posix/src/per_thread_waiter.c', 'platform/posix/src/time_rep.c', 'platform/posix/src/yield.c',
            'platform/linux/src/nsync_semaphore_futex.c']


def build_real_lib(ctx, extra_flags=()):
    """The real C library built from the working tree with gcc (same sources and include path as the CMake C target)."""
    out = ctx.path('real', 'libnsync_real.a')
    if os.path.exists(out):
        return out
    objs = []
    for sfile in REAL_SRC:
        o = ctx.path('real', sfile.replace('/', '_') + '.o')
        cmd = ['gcc', '-O2', '-g', '-c', '-o', o] + inc_flags() + list(extra_flags) + [repo_path(sfile)]
        rc, so, se, w, _ = run(cmd, timeout=300)
        if rc != 0:
            raise RuntimeError('real lib build failed: %s' % se[-800:])
        objs.append(o)
    rc, so, se, w, _ = run(['ar', 'rcs', out] + objs)
    if rc != 0:
        raise RuntimeError('ar failed')
    return out
