"""E3: bounded interleavings by sequentialisation (seqcc).  Real nsync units -> LLVM IR (clang-14) -> flat predicated
C over a scalar-cell memory model (seqcc/) -> CBMC; counterexample schedules are re-executed natively."""
import os, re, json, sys, copy
from . import vf

SEQCC = os.path.join(vf.VERIF, 'seqcc')
RT = os.path.join(SEQCC, 'rt')
HE3 = os.path.join(vf.VERIF, 'harness', 'e3')
sys.path.insert(0, SEQCC)

SEM_OVERRIDE = {"struct.nsync_semaphore_s_": {"size": 256, "align": 8, "cells": [[0, 4, "int"]]}}
CORE_UNITS = ['internal/mu.c', 'internal/common.c', 'internal/dll.c']
ALL_UNITS = CORE_UNITS + ['internal/cv.c', 'internal/mu_wait.c', 'internal/sem_wait.c', 'internal/wait.c', 'internal/note.c', 'internal/counter.c',
                          'internal/once.c', 'internal/time_internal.c', 'platform/posix/src/time_rep.c']

ATOMICS = {'gcc_new': ['platform/gcc_new'], 'c11': ['platform/c11']}


def build_ll(ctx, key, harness, units, atomics='gcc_new', defines=()):
    """clang-14 -O0 (optnone disabled) -> opt sroa,mem2reg,early-cse,simplifycfg,adce -> llvm-link"""
    d = ctx.path('ir', key, 'x')
    d = os.path.dirname(d)
    out = os.path.join(d, 'linked.ll')
    if os.path.exists(out):
        return out
    incs = ['-I', HE3] + sum([['-I', vf.repo_path(p)] for p in ATOMICS[atomics]], []) + vf.inc_flags()
    bcs = []
    srcs = [harness if os.path.isabs(harness) else os.path.join(HE3, harness)] + [vf.repo_path(u) for u in units]
    for s in srcs:
        b = os.path.join(d, re.sub(r'[^A-Za-z0-9_.]', '_', os.path.relpath(s, '/')) + '.bc')
        if s.endswith('.cc'):
            # the C++ build of the CMake project: platform/c++11 first, NSYNC_USE_CPP11_TIMEPOINT, NSYNC_ATOMIC_CPP11
            cc = ['clang++-14', '-std=c++11', '-fno-exceptions', '-fno-rtti', '-DNSYNC_USE_CPP11_TIMEPOINT', '-DNSYNC_ATOMIC_CPP11', '-I', vf.repo_path('platform/c++11')]
        else:
            cc = ['clang-14']
        rc, o, e, w, _ = vf.run(cc + ['-O0', '-Xclang', '-disable-O0-optnone', '-emit-llvm', '-c', '-w'] + incs + ['-D%s' % x for x in defines] + [s, '-o', b + '.raw'], timeout=300)
        if rc != 0:
            raise RuntimeError('clang failed on %s: %s' % (s, e[-1500:]))
        rc, o, e, w, _ = vf.run(['opt-14', '-passes=sroa,mem2reg,early-cse,simplifycfg,adce', b + '.raw', '-o', b], timeout=300)
        if rc != 0:
            raise RuntimeError('opt failed on %s: %s' % (s, e[-1500:]))
        bcs.append(b)
    rc, o, e, w, _ = vf.run(['llvm-link-14'] + bcs + ['-S', '-o', out], timeout=300)
    if rc != 0:
        raise RuntimeError('llvm-link failed: %s' % e[-1500:])
    return out


def translate(ctx, ll, cfg, out_c):
    import emit
    c, G = emit.generate(ll, cfg)
    open(out_c + '.tmp', 'w').write(c)
    os.rename(out_c + '.tmp', out_c)
    return {'objects': len(G.objs), 'cells': sum(len(o.cells) for o in G.objs), 'lines': c.count('\n'), 'warnings': sorted(set(G.warnings))[:20]}


class Scenario:
    def __init__(self, name, harness, threads, units=None, pools=None, R=4, B=60, ninit=0, nfinal=0, unroll=None, defines=(), timeout=900,
                 mem_gb=24, optional=False, desc='', cfg_extra=None, witness=True, atomics='gcc_new', solver=('--external-sat-solver', 'kissat')):
        self.name, self.harness, self.threads = name, harness, threads
        self.units = units or ALL_UNITS
        self.pools = pools if pools is not None else {'waiter': {'type': 'struct.waiter', 'count': len(threads) - ninit - nfinal}}
        self.R, self.B, self.ninit, self.nfinal = R, B, ninit, nfinal
        self.unroll = unroll or {'*': 1}
        self.defines, self.timeout, self.mem_gb, self.optional, self.desc = list(defines), timeout, mem_gb, optional, desc
        self.cfg_extra = cfg_extra or {}
        self.witness = witness
        self.atomics = atomics
        self.solver = solver

    def cfg(self):
        c = {'threads': self.threads, 'ninit': self.ninit, 'nfinal': self.nfinal, 'pools': self.pools, 'layout_override': copy.deepcopy(SEM_OVERRIDE),
             'max_rec': 3, 'unroll': self.unroll}
        lo = self.cfg_extra.get('layout_override')
        c.update({k: v for k, v in self.cfg_extra.items() if k != 'layout_override'})
        if lo:
            c['layout_override'].update(lo)
        return c

    def cdefs(self, witness=False):
        return ['VF_R=%d' % self.R, 'VF_BMAX=%d' % self.B] + self.defines + (['WITNESS'] if witness else [])


import threading
_locks = {}
_glock = threading.Lock()


def _lock(name):
    with _glock:
        return _locks.setdefault(name, threading.Lock())


def gen_c(ctx, sc):
    with _lock('gen:' + sc.name):
        return _gen_c(ctx, sc)


def _gen_c(ctx, sc):
    key = re.sub(r'[^A-Za-z0-9_.-]', '_', sc.harness + '.' + sc.atomics + '.' + vf.file_sha([]) + '.' + '_'.join(os.path.basename(u) for u in sc.units))[:150]
    with _lock('ll:' + key):
        ll = build_ll(ctx, key, sc.harness, sc.units, atomics=sc.atomics)
    out_c = ctx.path('gen', sc.name + '.c')
    if not os.path.exists(out_c):
        st = translate(ctx, ll, sc.cfg(), out_c)
    else:
        st = {}
    return out_c, st


def make_jobs(ctx, sc):
    """the main query and (optionally) its witness twin"""
    jobs = []
    for wit in ([False, True] if sc.witness else [False]):
        name = sc.name + ('_witness' if wit else '')
        meta = {'scenario': sc.name, 'harness': 'harness/e3/' + sc.harness, 'threads': sc.threads[:len(sc.threads) - sc.ninit - sc.nfinal], 'rounds_R': sc.R, 'budget_B': sc.B,
                'unroll': sc.unroll, 'defines': sc.defines, 'desc': sc.desc, 'optional': sc.optional, 'units': sc.units, 'atomics': sc.atomics}

        def fn(wit=wit, meta=meta):
            out_c, st = gen_c(ctx, sc)
            if 'oracle_sites' not in st:
                try:
                    txt = open(out_c).read()
                    st['oracle_sites'] = len(re.findall(r'VF_(ALIVE|BAD_ACCESS|HASSERT|NULL_ACCESS|PANIC|CHECK)\(', txt)) + sc.R * len(sc.threads) + 1
                    st['visible_points'] = txt.count('VF_VP(')
                except Exception:
                    pass
            meta.update({'translation': st, 'oracle_sites': st.get('oracle_sites', 1)})
            flags = ['-I', RT, '--no-standard-checks'] + ['-D%s' % d for d in sc.cdefs(wit)]
            r = vf.cbmc(out_c, None, unwind=max(sc.R, len(sc.threads), 12) + 1, flags=flags, timeout=sc.timeout, mem_gb=sc.mem_gb, checks=[], drop_unused=False,
                        solver=list(sc.solver), trace=True)
            return r
        jobs.append(vf.Job(name, fn, expect='witness' if wit else 'pass', meta=meta))
    return jobs


def smoke_job(ctx, sc, nruns=6):
    """translator validation: the generated program, compiled natively, runs under pseudo-random schedules (blocked threads skipped);
    no oracle may fire and every thread must finish in the runs that are long enough"""
    import random, copy as _c

    def fn():
        sc2 = _c.copy(sc)
        sc2.R = 60
        fin = bad = 0
        fails = []
        for seed in range(nruns):
            rnd = random.Random(ctx.seed * 1000 + seed)
            nd = [65535 if seed == 0 else rnd.choice([65535, 65535, 0, rnd.randint(1, 90)]) for _ in range(4000)]
            o, d = native_run(ctx, sc2, nd, sc.name + '.smoke%d' % seed, env_extra={'VF_AUTOSKIP': '1'})
            if o == 'clean' and 'alldone=1' in d:
                fin += 1
            elif o in ('assert', 'crash', 'builderror'):
                bad += 1
                fails.append({'confirmed': False, 'key': 'smoke', 'detail': 'native smoke run %d of %s: %s %s' % (seed, sc.name, o, d[-300:])})
        return {'status': 'pass' if bad == 0 and fin > 0 else 'error', 'obligations': nruns, 'discharged': nruns - bad, 'native_runs': nruns, 'native_runs_all_threads_finished': fin,
                'failures': fails}
    return vf.Job(sc.name + '_native_smoke', fn, expect='pass', meta={'scenario': sc.name, 'kind': 'translator validation: native execution of the generated program under random schedules'})


def tv_job(ctx):
    """translation validation: harness/e3/tv_script.c (a deterministic single-threaded script over the whole public API) is run (a) through
    seqcc + gcc and (b) against the real library built from the same tree; the printed event sequences must be identical"""
    def fn():
        sc = Scenario('tv_script', 'tv_script.c', ['tv_script'], units=ALL_UNITS, R=400,
                      pools={'waiter': {'type': 'struct.waiter', 'count': 2}, 'note': {'type': 'struct.nsync_note_s_', 'count': 3}, 'counter': {'type': 'struct.nsync_counter_s_', 'count': 1}},
                      unroll={'*': 1}, defines=['VF_FROZEN_CLOCK'],
                      cfg_extra={'max_cells': 400, 'max_rec': 2, 'exclude_fns': ['cv_enqueue', 'cv_dequeue', 'cv_ready_time', 'note_*', 'notify', 'nsync_note_*', 'no_children']})
        o, d = native_run(ctx, sc, [65535] * 400, 'tv', env_extra={'VF_AUTOSKIP': '1'})
        ev_gen = [l for l in d.splitlines() if l.startswith('EV ')]
        lib = vf.build_real_lib(ctx)
        exe = ctx.path('tv', 'tv_real')
        vf.cc_native(exe, [os.path.join(HE3, 'tv_script.c'), os.path.join(HE3, 'tv_main.c'), lib], front_inc=[HE3], incs=['public'], extra=['-lpthread', '-w'])
        rc, out, err, w, _ = vf.run([exe], timeout=60)
        ev_real = [l for l in out.splitlines() if l.startswith('EV ')]
        same = (ev_gen == ev_real) and len(ev_real) >= 30 and o == 'clean'
        fails = []
        if not same:
            k = next((i for i, (x, y) in enumerate(zip(ev_gen, ev_real)) if x != y), min(len(ev_gen), len(ev_real)))
            fails.append({'confirmed': False, 'key': 'tv', 'detail': 'translator validation mismatch at event %d: generated %r real %r (native outcome %s, %d vs %d events) %s' % (
                k, ev_gen[k:k + 1], ev_real[k:k + 1], o, len(ev_gen), len(ev_real), d[-200:])})
        return {'status': 'pass' if same else 'error', 'obligations': len(ev_real), 'discharged': len(ev_real) if same else 0, 'programs': 1, 'events_compared': len(ev_real),
                'failures': fails}
    return vf.Job('translator_validation_tv_script', fn, expect='pass', meta={'kind': 'translation validation: seqcc output vs real library on a deterministic API script'})


def native_run(ctx, sc, nd, tag, env_extra=None):
    out_c, _ = gen_c(ctx, sc)
    exe = ctx.path('replay', tag + '.exe')
    rc, o, e, w, _ = vf.run(['gcc', '-O0', '-g', '-w', '-DVF_NATIVE', '-I', RT] + ['-D%s' % d for d in sc.cdefs(False)] + ['-o', exe, out_c], timeout=300)
    if rc != 0:
        return 'builderror', e[-800:]
    tr = ctx.path('replay', tag + '.trace')
    open(tr, 'w').write('\n'.join(str(v) for v in nd) + '\n')
    rc, o, e, w, _ = vf.run([exe], timeout=120, env=dict(os.environ, VF_TRACE=tr, **(env_extra or {})))
    tail = (o + e)[-600:]
    if rc is None:
        return 'timeout', tail
    if rc == 99:
        return 'assert', tail
    if rc == 77:
        return 'assume', tail
    if rc == 0:
        return 'clean', tail
    return 'crash', 'rc=%s %s' % (rc, tail)


def confirm(ctx, job, failure, scenarios):
    sc = scenarios[job.meta['scenario']]
    nd = [v for (k, v) in failure.get('assignments', []) if k == 'vf_nd' and isinstance(v, int)]
    tag = re.sub(r'[^A-Za-z0-9_.-]', '_', job.name + '.' + failure['property'])
    outcome, detail = native_run(ctx, sc, nd, tag)
    m = re.search(r'VF-FAIL: (.*)', detail)
    native_msg = m.group(1) if m else ''
    ok = outcome == 'assert'
    # schedule summary: which thread ran with which budget
    desc = failure['description']
    key = '%s|%s|%s' % (sc.name, desc, native_msg)
    rp = vf.save_replay(ctx.prop, tag, {
        'kind': 'seqcc', 'property': ctx.prop, 'scenario': sc.name, 'job': job.name, 'cbmc_property': failure['property'], 'description': desc,
        'nondet_choices': nd, 'native_outcome': outcome, 'native_output_tail': detail, 'meta': job.meta,
        'how_to_replay': 'python3 tools/replay.py <this file>: regenerates the sequentialised program from /repo and re-executes it natively under these scheduler/clock choices'})
    return {'confirmed': ok, 'key': key, 'replay': rp,
            'detail': '%s: %s; native re-execution of the schedule: %s %s' % (sc.name, desc, outcome, native_msg)}


def replay_file(ctx, d):
    import importlib
    mod = importlib.import_module('checks.%s' % d['property'])
    sc = mod.scenarios(ctx)[d['scenario']]
    outcome, detail = native_run(ctx, sc, d['nondet_choices'], 'manual')
    print('native outcome:', outcome)
    print(detail)
    return 1 if outcome == 'assert' else 0
